/-
  C04 / C20 — a pay-to-public-key-hash spend in the interpreter model, symbolically:
  `<sig‖hashtype> <pubkey>` against `DUP HASH160 <h> EQUALVERIFY CHECKSIG`.
  Core Lean only.
-/
import GoBT.Interp.Exec
namespace GoBT.Interp.P2PKH
open GoBT GoBT.Interp GoBT.Script

/-- the parsed form of a direct push of 1..75 bytes -/
def pushOp (d : Bytes) : POp := ⟨UInt8.ofNat d.length, d, d.length + 1⟩

theorem ofNat_toNat_small {n : Nat} (h : n < 256) : (UInt8.ofNat n).toNat = n := by
  simp [UInt8.toNat_ofNat, Nat.mod_eq_of_lt h]

/-- a state in which the next opcode executes: no open conditional, no early return -/
def Live (s : St) : Prop := s.cond = [] ∧ s.early = false

/-- executing a direct push of 2..75 bytes pushes the data and nothing else -/
theorem exec_push (env : Env) (cur : List POp) (off : Nat) (d : Bytes) (s : St)
    (hl : 2 ≤ d.length ∧ d.length ≤ 75) (hmax : d.length ≤ env.cfg.maxElem) (hs : Live s) :
    executeOpcode env cur off (pushOp d) s = .ok { s with ds := d :: s.ds } := by
  obtain ⟨hc, he⟩ := hs
  have hn : (UInt8.ofNat d.length).toNat = d.length := ofNat_toNat_small (by omega)
  unfold executeOpcode
  simp only [pushOp]
  have h1 : ¬ d.length > env.cfg.maxElem := by omega
  simp only [h1, ↓reduceIte]
  have hse : shouldExec env s (UInt8.ofNat d.length) = true := by
    unfold shouldExec; simp [hc, he]
  have hdis : isDisabledOp (UInt8.ofNat d.length) = false := by
    unfold isDisabledOp
    have : (UInt8.ofNat d.length) ≠ 0x8d ∧ (UInt8.ofNat d.length) ≠ 0x8e := by
      constructor <;> (intro h; have := congrArg UInt8.toNat h; rw [hn] at this; simp at this; omega)
    simp [this.1, this.2]
  have hill : alwaysIllegalOp (UInt8.ofNat d.length) = false := by
    unfold alwaysIllegalOp
    have : (UInt8.ofNat d.length) ≠ 0x65 ∧ (UInt8.ofNat d.length) ≠ 0x66 := by
      constructor <;> (intro h; have := congrArg UInt8.toNat h; rw [hn] at this; simp at this; omega)
    simp [this.1, this.2]
  have hb : bump ⟨UInt8.ofNat d.length, d, d.length + 1⟩ s = s := by
    unfold bump; simp only [hn]; have : ¬ d.length > 0x60 := by omega
    simp [this]
  simp only [hse, hdis, hill, hb, Bool.false_and, Bool.false_eq_true, ↓reduceIte, hn]
  have h2 : ¬ (d.length > 0x60) := by omega
  have hbr : isBranchExecuting s = true := by unfold isBranchExecuting; simp [hc]
  have hmin : enforceMinimumDataPush ⟨UInt8.ofNat d.length, d, d.length + 1⟩ = true := by
    unfold enforceMinimumDataPush
    simp only [hn]
    have a1 : (d.length == 0) = false := by rw [beq_eq_false_iff_ne]; omega
    have a2 : (d.length == 1) = false := by rw [beq_eq_false_iff_ne]; omega
    have a3 : d.length ≤ 75 := hl.2
    simp [a1, a2, a3]
  have hlen : opLength (UInt8.ofNat d.length) = (d.length : Int) + 1 := by
    unfold opLength
    rw [hn]
    have : 1 ≤ d.length ∧ d.length ≤ 75 := by omega
    simp [this]
  simp only [h2, decide_false, Bool.false_and, Bool.false_eq_true, ↓reduceIte, hbr, Bool.not_true, hmin,
    Bool.and_false, hlen, bne_self_eq_false]
  unfold handler
  simp only [hn]
  have b1 : (d.length == 0x00) = false := by rw [beq_eq_false_iff_ne]; omega
  have b2 : d.length ≤ 0x4e := by omega
  simp [b1, b2]

/-- executing one of the four data-less opcodes of the template in a live state: the operation is counted and the
    handler runs -/
theorem exec_plain (env : Env) (cur : List POp) (off : Nat) (b : UInt8) (s : St)
    (hb : b = 0x76 ∨ b = 0xa9 ∨ b = 0x88 ∨ b = 0xac) (hs : Live s) (hops : s.numOps + 1 ≤ env.cfg.maxOps) :
    executeOpcode env cur off ⟨b, [], 1⟩ s = handler env cur off ⟨b, [], 1⟩ { s with numOps := s.numOps + 1 } := by
  obtain ⟨hc, he⟩ := hs
  have hno : ¬ (s.numOps + 1 > env.cfg.maxOps) := by omega
  rcases hb with rfl | rfl | rfl | rfl <;>
  · unfold executeOpcode
    simp [shouldExec, hc, he, isDisabledOp, alwaysIllegalOp, bump, isBranchExecuting, isConditionalOp, opLength, hno,
      opPUSHDATA1, opPUSHDATA2, opPUSHDATA4]

theorem handler_dup (env : Env) (cur : List POp) (off : Nat) (s : St) (a : Bytes) (r : List Bytes) (hds : s.ds = a :: r) :
    handler env cur off ⟨0x76, [], 1⟩ s = .ok { s with ds := a :: a :: r } := by
  simp [handler, handlerStack, hds]

theorem handler_hash160 (env : Env) (cur : List POp) (off : Nat) (s : St) (a : Bytes) (r : List Bytes) (hds : s.ds = a :: r) :
    handler env cur off ⟨0xa9, [], 1⟩ s = .ok { s with ds := env.H.ripemd160 (env.H.sha256 a) :: r } := by
  simp [handler, handlerCrypto, hds]

theorem handler_equalverify (env : Env) (cur : List POp) (off : Nat) (s : St) (a : Bytes) (r : List Bytes)
    (hds : s.ds = a :: a :: r) : handler env cur off ⟨0x88, [], 1⟩ s = .ok { s with ds := r } := by
  simp [handler, handlerSplice, hds]

/-- the script code OP_CHECKSIG hashes: the current script from the last separator on, with signature and separator
    removal for a legacy signature -/
def sigScriptCode (env : Env) (sub : List POp) (fullSig : Bytes) : List POp :=
  if !hasFlag env.flags fForkID || (fullSig.getLast?.getD 0).toNat &&& 0x40 != 0x40
  then removeOpcode (removeOpcodeByData sub fullSig) 0xab else sub

/-- OP_CHECKSIG with a signature that passes the encoding rules and verifies: `true` is pushed -/
theorem handler_checksig (env : Env) (cur : List POp) (off : Nat) (s : St) (pk fullSig : Bytes) (r : List Bytes)
    (c : Ctx) (code digest : Bytes)
    (hds : s.ds = pk :: fullSig :: r) (hsep : s.lastCodeSep = 0 ∧ s.sepSeen = false) (hlen : 1 ≤ fullSig.length)
    (hht : checkHashTypeEncoding env (fullSig.getLast?.getD 0).toNat = none)
    (hse : checkSignatureEncoding env fullSig.dropLast = none)
    (hpe : checkPubKeyEncoding env pk = none)
    (hcode : unparse (sigScriptCode env cur fullSig) = .ok code)
    (hctx : env.ctx = some c)
    (hdig : sigDigest env c code (fullSig.getLast?.getD 0).toNat = some digest)
    (hpk : env.H.pubKeyOk pk = true)
    (hver : env.H.verify (hasFlag env.flags fStrictEnc || hasFlag env.flags fDERSig) fullSig.dropLast digest pk = some true) :
    handler env cur off ⟨0xac, [], 1⟩ s = .ok (pushBool true { s with ds := r }) := by
  have hsub : subScript cur s = some cur := by
    unfold subScript; simp [hsep.1, hsep.2]
  have hl : ¬ (fullSig.length < 1) := by omega
  unfold sigScriptCode at hcode
  simp only [handler, handlerCrypto, hsub]
  by_cases hq : (!hasFlag env.flags fForkID || (fullSig.getLast?.getD 0).toNat &&& 0x40 != 0x40) = true
  · simp only [hq, ↓reduceIte] at hcode
    simp [opCheckSig, hds, hl, hht, hse, hpe, hctx, hq, hcode, hdig, hpk, hver]
  · simp only [hq, Bool.false_eq_true, ↓reduceIte] at hcode
    simp [opCheckSig, hds, hl, hht, hse, hpe, hctx, hq, hcode, hdig, hpk, hver]

/-! ### running the two scripts -/

theorem runOps_cons_ok (env : Env) (sidx : Nat) (cur : List POp) (o o2 : POp) (rest : List POp) (off : Nat) (s s' : St)
    (tr : List Snap) (h : executeOpcode env cur off o s = .ok s')
    (hst : s'.ds.length + s'.as.length ≤ env.cfg.maxStack) :
    runOps env sidx cur (o :: o2 :: rest) off s tr =
      runOps env sidx cur (o2 :: rest) (off + 1) s' (⟨sidx, ((off + 1 : Nat) : Int), s'⟩ :: tr) := by
  have : ¬ (s'.ds.length + s'.as.length > env.cfg.maxStack) := by omega
  rw [runOps, h]
  simp only [this, ↓reduceIte]

theorem runOps_last_ok (env : Env) (sidx : Nat) (cur : List POp) (o : POp) (off : Nat) (s s' : St)
    (tr : List Snap) (h : executeOpcode env cur off o s = .ok s')
    (hst : s'.ds.length + s'.as.length ≤ env.cfg.maxStack) :
    runOps env sidx cur [o] off s tr = (.finished s', tr) := by
  have : ¬ (s'.ds.length + s'.as.length > env.cfg.maxStack) := by omega
  rw [runOps, h]
  simp only [this, ↓reduceIte]

/-- the limits of either era are far above what the template needs -/
structure CfgOk (cfg : Cfg) : Prop where
  elem : 75 ≤ cfg.maxElem
  ops : 11 ≤ cfg.maxOps
  stack : 4 ≤ cfg.maxStack
  script : 200 ≤ cfg.maxScriptSize

theorem cfgBefore_ok : CfgOk cfgBefore := ⟨by decide, by decide, by decide, by decide⟩
theorem cfgAfter_ok : CfgOk cfgAfter := ⟨by decide, by decide, by decide, by decide⟩

def unlockOps (fullSig pk : Bytes) : List POp := [pushOp fullSig, pushOp pk]
def lockOps (h : Bytes) : List POp := [⟨0x76, [], 1⟩, ⟨0xa9, [], 1⟩, pushOp h, ⟨0x88, [], 1⟩, ⟨0xac, [], 1⟩]

/-- the unlocking script leaves `<pk> <sig>` (top first) -/
theorem run_unlock (env : Env) (fullSig pk : Bytes) (hc : CfgOk env.cfg)
    (hs : 2 ≤ fullSig.length ∧ fullSig.length ≤ 75) (hp : 2 ≤ pk.length ∧ pk.length ≤ 75) (tr : List Snap) :
    (runOps env 0 (unlockOps fullSig pk) (unlockOps fullSig pk) 0 {} tr).1 = .finished { ds := [pk, fullSig] } := by
  have hel := hc.elem
  have hst := hc.stack
  have e1 : executeOpcode env (unlockOps fullSig pk) 0 (pushOp fullSig) {} = .ok { ds := [fullSig] } :=
    exec_push env (unlockOps fullSig pk) 0 fullSig {} hs (by omega) ⟨rfl, rfl⟩
  have e2 : executeOpcode env (unlockOps fullSig pk) 1 (pushOp pk) { ds := [fullSig] } = .ok { ds := [pk, fullSig] } :=
    exec_push env (unlockOps fullSig pk) 1 pk { ds := [fullSig] } hp (by omega) ⟨rfl, rfl⟩
  have r1 := runOps_cons_ok env 0 (unlockOps fullSig pk) (pushOp fullSig) (pushOp pk) [] 0 {} _ tr e1
    (by simp only [List.length_cons, List.length_nil]; omega)
  have r2 := runOps_last_ok env 0 (unlockOps fullSig pk) (pushOp pk) 1 _ _
    (⟨0, ((0 + 1 : Nat) : Int), { ds := [fullSig] }⟩ :: tr) e2 (by simp only [List.length_cons, List.length_nil]; omega)
  show (runOps env 0 (unlockOps fullSig pk) [pushOp fullSig, pushOp pk] 0 {} tr).1 = _
  rw [r1, r2]

/-- the locking script, started on `<pk> <sig>`, ends with `true` alone on the stack — provided the key hashes to `h`
    and the signature passes the encoding rules and verifies for the digest of the script code -/
theorem run_lock (env : Env) (fullSig pk h : Bytes) (hc : CfgOk env.cfg) (c : Ctx) (code digest : Bytes)
    (hh : h.length = 20) (hkey : env.H.ripemd160 (env.H.sha256 pk) = h)
    (hlen : 1 ≤ fullSig.length)
    (hht : checkHashTypeEncoding env (fullSig.getLast?.getD 0).toNat = none)
    (hse : checkSignatureEncoding env fullSig.dropLast = none)
    (hpe : checkPubKeyEncoding env pk = none)
    (hcode : unparse (sigScriptCode env (lockOps h) fullSig) = .ok code)
    (hctx : env.ctx = some c)
    (hdig : sigDigest env c code (fullSig.getLast?.getD 0).toNat = some digest)
    (hpk : env.H.pubKeyOk pk = true)
    (hver : env.H.verify (hasFlag env.flags fStrictEnc || hasFlag env.flags fDERSig) fullSig.dropLast digest pk = some true)
    (tr : List Snap) :
    (runOps env 1 (lockOps h) (lockOps h) 0 { ds := [pk, fullSig] } tr).1 =
      .finished { ds := [fromBool true], numOps := 4 } := by
  have hel := hc.elem
  have hop := hc.ops
  have hst := hc.stack
  let L := lockOps h
  -- the five steps
  have e1 : executeOpcode env L 0 ⟨0x76, [], 1⟩ { ds := [pk, fullSig] } = .ok { ds := [pk, pk, fullSig], numOps := 1 } := by
    rw [exec_plain env L 0 0x76 _ (Or.inl rfl) ⟨rfl, rfl⟩ (by simp only; omega)]
    exact handler_dup env L 0 _ pk [fullSig] rfl
  have e2 : executeOpcode env L 1 ⟨0xa9, [], 1⟩ { ds := [pk, pk, fullSig], numOps := 1 } =
      .ok { ds := [h, pk, fullSig], numOps := 2 } := by
    rw [exec_plain env L 1 0xa9 _ (Or.inr (Or.inl rfl)) ⟨rfl, rfl⟩ (by simp only; omega)]
    rw [handler_hash160 env L 1 _ pk [pk, fullSig] rfl, hkey]
  have e3 : executeOpcode env L 2 (pushOp h) { ds := [h, pk, fullSig], numOps := 2 } =
      .ok { ds := [h, h, pk, fullSig], numOps := 2 } :=
    exec_push env L 2 h _ (by omega) (by omega) ⟨rfl, rfl⟩
  have e4 : executeOpcode env L 3 ⟨0x88, [], 1⟩ { ds := [h, h, pk, fullSig], numOps := 2 } =
      .ok { ds := [pk, fullSig], numOps := 3 } := by
    rw [exec_plain env L 3 0x88 _ (Or.inr (Or.inr (Or.inl rfl))) ⟨rfl, rfl⟩ (by simp only; omega)]
    exact handler_equalverify env L 3 _ h [pk, fullSig] rfl
  have e5 : executeOpcode env L 4 ⟨0xac, [], 1⟩ { ds := [pk, fullSig], numOps := 3 } =
      .ok { ds := [fromBool true], numOps := 4 } := by
    rw [exec_plain env L 4 0xac _ (Or.inr (Or.inr (Or.inr rfl))) ⟨rfl, rfl⟩ (by simp only; omega)]
    exact handler_checksig env L 4 _ pk fullSig [] c code digest rfl ⟨rfl, rfl⟩ hlen hht hse hpe hcode hctx hdig hpk hver
  have len4 : ∀ (a b c d : Bytes) (n : Nat), ({ ds := [a, b, c, d], numOps := n } : St).ds.length +
      ({ ds := [a, b, c, d], numOps := n } : St).as.length ≤ env.cfg.maxStack := by
    intro a b c d n; simp only [List.length_cons, List.length_nil]; omega
  show (runOps env 1 L [⟨0x76, [], 1⟩, ⟨0xa9, [], 1⟩, pushOp h, ⟨0x88, [], 1⟩, ⟨0xac, [], 1⟩] 0 _ tr).1 = _
  rw [runOps_cons_ok env 1 L _ _ _ 0 _ _ tr e1 (by simp only [List.length_cons, List.length_nil]; omega)]
  rw [runOps_cons_ok env 1 L _ _ _ 1 _ _ _ e2 (by simp only [List.length_cons, List.length_nil]; omega)]
  rw [runOps_cons_ok env 1 L _ _ _ 2 _ _ _ e3 (len4 _ _ _ _ _)]
  rw [runOps_cons_ok env 1 L _ _ _ 3 _ _ _ e4 (by simp only [List.length_cons, List.length_nil]; omega)]
  rw [runOps_last_ok env 1 L _ 4 _ _ _ e5 (by simp only [List.length_cons, List.length_nil]; omega)]

/-! ### the scripts as bytes -/

/-- `<sig‖hashtype> <pubkey>` -/
def unlockBytes (fullSig pk : Bytes) : Bytes :=
  UInt8.ofNat fullSig.length :: fullSig ++ (UInt8.ofNat pk.length :: pk)

/-- `DUP HASH160 <h> EQUALVERIFY CHECKSIG` -/
def lockBytes (h : Bytes) : Bytes := [0x76, 0xa9, UInt8.ofNat h.length] ++ h ++ [0x88, 0xac]

theorem parse_push (errCS : Bool) (fuel : Nat) (d rest : Bytes) (cond : Int) (hl : 1 ≤ d.length ∧ d.length ≤ 75) :
    parseAux true errCS (fuel + 1) (UInt8.ofNat d.length :: (d ++ rest)) cond =
      (parseAux true errCS fuel rest cond).map (pushOp d :: ·) := by
  have hn : (UInt8.ofNat d.length).toNat = d.length := ofNat_toNat_small (by omega)
  have hne : ∀ k : UInt8, 75 < k.toNat → UInt8.ofNat d.length ≠ k := by
    intro k hk he
    rw [he] at hn
    omega
  have hreq : requiresTx (UInt8.ofNat d.length) = false := by
    unfold requiresTx
    simp [hne 0xac (by decide), hne 0xad (by decide), hne 0xae (by decide), hne 0xaf (by decide), hne 0xb2 (by decide)]
  have hco : isCondOpen (UInt8.ofNat d.length) = false := by
    unfold isCondOpen
    simp [hne 0x63 (by decide), hne 0x64 (by decide)]
  have hend : UInt8.ofNat d.length ≠ opENDIF := hne 0x68 (by decide)
  have hret : UInt8.ofNat d.length ≠ opRETURN := hne 0x6a (by decide)
  have hlen : opLength (UInt8.ofNat d.length) = (d.length : Int) + 1 := by
    unfold opLength; rw [hn]; simp [hl]
  have h1 : ¬ ((d.length : Int) + 1 = 1) := by omega
  have h2 : (d.length : Int) + 1 > 1 := by omega
  have h3 : ((d.length : Int) + 1).toNat - 1 = d.length := by omega
  have h4 : ¬ ((d ++ rest).length < d.length) := by simp
  simp only [parseAux, hreq, Bool.and_false, Bool.false_eq_true, ↓reduceIte, hco, hend, hret, decide_false, hlen,
    h1, h2, h3, h4, List.take_left', List.drop_left', pushOp, Bool.false_and, Bool.true_and]

theorem parse_plain (fuel : Nat) (b : UInt8) (rest : Bytes) (cond : Int)
    (hb : b = 0x76 ∨ b = 0xa9 ∨ b = 0x88 ∨ b = 0xac) :
    parseAux true false (fuel + 1) (b :: rest) cond = (parseAux true false fuel rest cond).map (⟨b, [], 1⟩ :: ·) := by
  rcases hb with rfl | rfl | rfl | rfl <;>
  · simp [parseAux, requiresTx, isCondOpen, opENDIF, opRETURN, opLength, opPUSHDATA1, opPUSHDATA2, opPUSHDATA4]

theorem parse_unlock (fullSig pk : Bytes) (errCS : Bool) (hs : 1 ≤ fullSig.length ∧ fullSig.length ≤ 75)
    (hp : 1 ≤ pk.length ∧ pk.length ≤ 75) :
    parseScript (unlockBytes fullSig pk) errCS = .ok (unlockOps fullSig pk) := by
  unfold parseScript unlockBytes
  have hlen : (UInt8.ofNat fullSig.length :: fullSig ++ (UInt8.ofNat pk.length :: pk)).length =
      (fullSig.length + pk.length + 1) + 1 := by simp; omega
  rw [hlen]
  have : UInt8.ofNat fullSig.length :: fullSig ++ (UInt8.ofNat pk.length :: pk) =
      UInt8.ofNat fullSig.length :: (fullSig ++ (UInt8.ofNat pk.length :: (pk ++ []))) := by simp
  rw [this, parse_push errCS _ fullSig _ 0 hs]
  have h2 : fullSig.length + pk.length + 1 = (fullSig.length + pk.length) + 1 := rfl
  rw [h2, parse_push errCS _ pk [] 0 hp]
  cases hf : fullSig.length + pk.length with
  | zero => simp [parseAux, Except.map, unlockOps]
  | succ k => simp [parseAux, Except.map, unlockOps]

theorem parse_lock (h : Bytes) (hh : h.length = 20) : parseScript (lockBytes h) false = .ok (lockOps h) := by
  unfold parseScript lockBytes
  have hlen : ([0x76, 0xa9, UInt8.ofNat h.length] ++ h ++ [0x88, 0xac]).length = 24 + 1 := by simp [hh]
  rw [hlen]
  show parseAux true false (24 + 1) (0x76 :: 0xa9 :: UInt8.ofNat h.length :: (h ++ [0x88, 0xac])) 0 = _
  rw [parse_plain 24 0x76 _ 0 (Or.inl rfl)]
  rw [parse_plain 23 0xa9 _ 0 (Or.inr (Or.inl rfl))]
  rw [parse_push false 22 h _ 0 (by omega)]
  rw [parse_plain 21 0x88 _ 0 (Or.inr (Or.inr (Or.inl rfl)))]
  rw [parse_plain 20 0xac _ 0 (Or.inr (Or.inr (Or.inr rfl)))]
  simp [parseAux, Except.map, lockOps]

theorem mkEnv_cfgOk (H : Crypto) (flags : Nat) (ctx : Option Ctx) : CfgOk (mkEnv H flags ctx).cfg := by
  unfold mkEnv
  simp only
  split <;> split <;> first | exact cfgAfter_ok | exact cfgBefore_ok

theorem lock_not_p2sh (h : Bytes) (hh : h.length = 20) : isP2SH (lockBytes h) = false := by
  unfold isP2SH lockBytes
  simp [hh]

theorem unlock_pushOnly (fullSig pk : Bytes) (hs : fullSig.length ≤ 75) (hp : pk.length ≤ 75) :
    isPushOnly (unlockOps fullSig pk) = true := by
  simp only [isPushOnly, unlockOps, pushOp, List.all_cons, List.all_nil, Bool.and_true, Bool.and_eq_true,
    decide_eq_true_eq]
  rw [ofNat_toNat_small (by omega), ofNat_toNat_small (by omega)]
  omega

/-- everything thread.apply decides before the first step, for the template -/
theorem prepare_p2pkh (H : Crypto) (flags : Nat) (c : Ctx) (fullSig pk h : Bytes)
    (hflags : hasFlag (mkEnv H flags (some c)).flags fCleanStack = true → hasFlag (mkEnv H flags (some c)).flags fBip16 = true)
    (hs : 2 ≤ fullSig.length ∧ fullSig.length ≤ 75) (hp : 2 ≤ pk.length ∧ pk.length ≤ 75) (hh : h.length = 20) :
    prepare H flags (some c) (unlockBytes fullSig pk) (lockBytes h) =
      .inr { env := mkEnv H flags (some c), unlock := unlockOps fullSig pk, lock := lockOps h,
             unlockEmpty := false, bip16 := false } := by
  have hc := mkEnv_cfgOk H flags (some c)
  have hsz := hc.script
  unfold prepare
  have hul : (unlockBytes fullSig pk).length ≤ (mkEnv H flags (some c)).cfg.maxScriptSize := by
    simp only [unlockBytes, List.length_cons, List.length_append]; omega
  have hll : (lockBytes h).length ≤ (mkEnv H flags (some c)).cfg.maxScriptSize := by
    simp only [lockBytes, List.length_cons, List.length_append, List.length_nil, hh]; omega
  have hne : (unlockBytes fullSig pk).isEmpty = false := by simp [unlockBytes]
  have hcl : (hasFlag (mkEnv H flags (some c)).flags fCleanStack && !hasFlag (mkEnv H flags (some c)).flags fBip16) = false := by
    cases hcs : hasFlag (mkEnv H flags (some c)).flags fCleanStack
    · rfl
    · simp [hflags hcs]
  simp only [hne, Bool.false_and, Bool.false_eq_true, ↓reduceIte, hcl, Nat.not_lt.mpr hul, Nat.not_lt.mpr hll,
    gt_iff_lt, Option.isNone_some, parse_unlock fullSig pk false (by omega) (by omega), parse_lock h hh,
    unlock_pushOnly fullSig pk hs.2 hp.2, lock_not_p2sh h hh, Bool.not_true, Bool.and_false]

theorem runScript_normal (env : Env) (sidx : Nat) (ops : List POp) (s s' : St) (tr : List Snap)
    (h : (runOps env sidx ops ops 0 s tr).1 = .finished s') (hc : s'.cond = []) :
    ∃ tr', runScript env sidx ops s tr =
      (.normal { s' with as := [], numOps := 0, early := false, lastCodeSep := 0, sepSeen := false }, tr') := by
  unfold runScript
  cases hr : runOps env sidx ops ops 0 s tr with
  | mk e t =>
    rw [hr] at h
    simp only at h
    subst h
    simp [hc]

/-- **A pay-to-public-key-hash spend is accepted.**  For every flag word (either era, any policy flags that do not
    make the engine refuse the flag combination itself), every transaction context, every key `pk` of 2..75 bytes whose
    HASH160 is the 20-byte `h`, and every signature-with-hash-type `fullSig` of 2..75 bytes that passes the three
    encoding checks in force and verifies under `pk` for the digest of the script code: `Engine.Execute` on
    `<fullSig> <pk>` against `DUP HASH160 <h> EQUALVERIFY CHECKSIG` accepts. -/
theorem p2pkh_spend_accepted (H : Crypto) (flags : Nat) (c : Ctx) (fullSig pk h code digest : Bytes)
    (hflags : hasFlag (mkEnv H flags (some c)).flags fCleanStack = true → hasFlag (mkEnv H flags (some c)).flags fBip16 = true)
    (hs : 2 ≤ fullSig.length ∧ fullSig.length ≤ 75) (hp : 2 ≤ pk.length ∧ pk.length ≤ 75) (hh : h.length = 20)
    (hkey : H.ripemd160 (H.sha256 pk) = h)
    (hht : checkHashTypeEncoding (mkEnv H flags (some c)) (fullSig.getLast?.getD 0).toNat = none)
    (hse : checkSignatureEncoding (mkEnv H flags (some c)) fullSig.dropLast = none)
    (hpe : checkPubKeyEncoding (mkEnv H flags (some c)) pk = none)
    (hcode : unparse (sigScriptCode (mkEnv H flags (some c)) (lockOps h) fullSig) = .ok code)
    (hdig : sigDigest (mkEnv H flags (some c)) c code (fullSig.getLast?.getD 0).toNat = some digest)
    (hpk : H.pubKeyOk pk = true)
    (hver : H.verify (hasFlag (mkEnv H flags (some c)).flags fStrictEnc || hasFlag (mkEnv H flags (some c)).flags fDERSig)
              fullSig.dropLast digest pk = some true) :
    (execute H flags (some c) (unlockBytes fullSig pk) (lockBytes h)).1 = .accept := by
  have hc := mkEnv_cfgOk H flags (some c)
  have henvH : (mkEnv H flags (some c)).H = H := by unfold mkEnv; rfl
  have hctx : (mkEnv H flags (some c)).ctx = some c := by unfold mkEnv; rfl
  unfold execute
  rw [prepare_p2pkh H flags c fullSig pk h hflags hs hp hh]
  simp only
  -- the unlocking script
  obtain ⟨tr1, h1⟩ := runScript_normal (mkEnv H flags (some c)) 0 (unlockOps fullSig pk) {} _ []
    (run_unlock (mkEnv H flags (some c)) fullSig pk hc hs hp []) rfl
  have hu : unlockOps fullSig pk = pushOp fullSig :: [pushOp pk] := rfl
  rw [hu] at h1 ⊢
  simp only
  rw [h1]
  simp only
  have hl : lockOps h = ⟨0x76, [], 1⟩ :: [⟨0xa9, [], 1⟩, pushOp h, ⟨0x88, [], 1⟩, ⟨0xac, [], 1⟩] := rfl
  rw [hl]
  simp only
  rw [← hl]
  -- the locking script
  unfold runLock
  simp only
  obtain ⟨tr2, h2⟩ := runScript_normal (mkEnv H flags (some c)) 1 (lockOps h) { ds := [pk, fullSig] } _
    (clampSnap [(pushOp fullSig :: [pushOp pk]).length, (lockOps h).length] 1 { ds := [pk, fullSig] } :: tr1)
    (run_lock (mkEnv H flags (some c)) fullSig pk h hc c code digest hh (by rw [henvH]; exact hkey) (by omega)
      hht hse hpe hcode hctx hdig (by rw [henvH]; exact hpk) (by rw [henvH]; exact hver) _) rfl
  rw [h2]
  simp [finalCheck, checkErrorCondition, fromBool, asBool]

/-! ### the script code of the template -/

theorem unparse_lockOps (h : Bytes) (hh : h.length = 20) : unparse (lockOps h) = .ok (lockBytes h) := by
  have hb : (pushOp h).bytes = .ok (UInt8.ofNat h.length :: h) := by
    unfold POp.bytes pushOp
    simp only
    have h1 : ¬ ((h.length : Int) + 1 = 1) := by omega
    have h2 : (h.length : Int) + 1 > 1 := by omega
    have h3 : ¬ (1 + h.length ≠ ((h.length : Int) + 1).toNat) := by omega
    simp only [h1, ↓reduceIte, h2, h3]
  have p1 : ∀ b : UInt8, (⟨b, [], 1⟩ : POp).bytes = .ok [b] := by intro b; simp [POp.bytes]
  simp only [lockOps, unparse, hb, p1]
  simp [lockBytes, bind, Except.bind, pure, Except.pure]

/-- a FORKID signature (flag set, bit 0x40 in the hash type): the script code is the locking script itself -/
theorem scriptCode_forkid (env : Env) (h fullSig : Bytes) (hh : h.length = 20)
    (hf : hasFlag env.flags fForkID = true) (hb : (fullSig.getLast?.getD 0).toNat &&& 0x40 = 0x40) :
    unparse (sigScriptCode env (lockOps h) fullSig) = .ok (lockBytes h) := by
  unfold sigScriptCode
  simp [hf, hb, unparse_lockOps h hh]

/-- a legacy signature: removing the signature push and the separators from the template changes nothing (the only
    push is the key hash, which is not the signature) -/
theorem scriptCode_legacy (env : Env) (h fullSig : Bytes) (hh : h.length = 20) (hne : h ≠ fullSig)
    (hl : hasFlag env.flags fForkID = false ∨ (fullSig.getLast?.getD 0).toNat &&& 0x40 ≠ 0x40) :
    unparse (sigScriptCode env (lockOps h) fullSig) = .ok (lockBytes h) := by
  have hcond : (!hasFlag env.flags fForkID || (fullSig.getLast?.getD 0).toNat &&& 0x40 != 0x40) = true := by
    rcases hl with hl | hl
    · simp [hl]
    · simp [hl]
  have hrm : removeOpcode (removeOpcodeByData (lockOps h) fullSig) 0xab = lockOps h := by
    have hkeep : (!((pushOp h).op.toNat ≤ 0x4e && canonicalPush (pushOp h) && (pushOp h).data == fullSig)) = true := by
      have : ((pushOp h).data == fullSig) = false := by simp [pushOp, hne]
      simp [this]
    have hop : ((pushOp h).op != 0xab) = true := by
      simp only [pushOp, hh]; decide
    simp only [removeOpcode, removeOpcodeByData, lockOps, List.filter, hkeep, hop]
    simp [canonicalPush]
    simpa using hop
  unfold sigScriptCode
  simp only [hcond, ↓reduceIte, hrm, unparse_lockOps h hh]

end GoBT.Interp.P2PKH
