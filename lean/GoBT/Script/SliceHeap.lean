/-
  Go byte slices over a heap of backing arrays: (array, offset, length, capacity), with `append` writing into the
  spare capacity when the result fits and allocating a new array otherwise.  This is the part of Go's semantics that
  the value model of scripts (`List Nat`) abstracts away, and the place where finding F-C20-04 lived:
  `s := *ia.LockingScriptPrefix` copies the header only, and the following appends land in the caller's array.

  Proved here, for every heap, slice and appended bytes:
  * `append_read`       — the result reads as old contents ++ new bytes (the value model's `++`);
  * `append_frame`      — an append changes no array other than the slice's own, and in that one only the cells
                          from offset+length on (the spare capacity);
  * `copyThenAppend_*`  — copying first (what `Tx.Inscribe` does since fix f38a724) leaves every array of the old heap
                          as it was, hence every slice the caller holds reads as before, and the result still reads as
                          prefix ++ bytes: the value model is an exact description of it;
  * `header_copy_clobbers` — a machine-checked witness that without the copy a second append through a slice sharing
                          the array overwrites what the first produced.
-/
namespace GoBT.SliceHeap

abbrev Heap (α : Type) := List (List α)

variable {α : Type} [Inhabited α]

structure Slice where
  arr : Nat
  off : Nat
  len : Nat
  cap : Nat          -- counted from `off`
deriving Repr, DecidableEq

def Heap.array (h : Heap α) (a : Nat) : List α := h.getD a []

def Heap.read (h : Heap α) (s : Slice) : List α := ((h.array s.arr).drop s.off).take s.len

/-- the slice lies inside an existing array -/
def Slice.WF (h : Heap α) (s : Slice) : Prop :=
  s.arr < h.length ∧ s.off + s.cap ≤ (h.array s.arr).length ∧ s.len ≤ s.cap

/-- overwrite `bs` into array `a` starting at position `p` (which must fit) -/
def writeAt (a : List α) (p : Nat) (bs : List α) : List α := a.take p ++ bs ++ a.drop (p + bs.length)

/-- Go's `append(s, bs...)`: in place when it fits into the capacity, else a new array (growth policy: exact fit plus
    the same amount of spare room — any policy gives the same theorems) -/
def append (h : Heap α) (s : Slice) (bs : List α) : Heap α × Slice :=
  if s.len + bs.length ≤ s.cap then
    (h.set s.arr (writeAt (h.array s.arr) (s.off + s.len) bs), { s with len := s.len + bs.length })
  else
    let n := s.len + bs.length
    (h ++ [h.read s ++ bs ++ List.replicate n default], { arr := h.length, off := 0, len := n, cap := 2 * n })

/-- `make([]byte, len(s)); copy(dst, s)` -/
def copyOf (h : Heap α) (s : Slice) : Heap α × Slice :=
  (h ++ [h.read s], { arr := h.length, off := 0, len := s.len, cap := s.len })

theorem array_lt (h : Heap α) (a : Nat) (ha : a < h.length) : h.array a = h[a] := by
  simp [Heap.array, List.getD, List.getElem?_eq_getElem ha]

theorem array_append_lt (h : Heap α) (x : List α) (a : Nat) (ha : a < h.length) : Heap.array (h ++ [x]) a = h.array a := by
  simp [Heap.array, List.getD, List.getElem?_append_left ha]

theorem array_append_new (h : Heap α) (x : List α) : Heap.array (h ++ [x]) h.length = x := by
  simp [Heap.array, List.getD]

theorem array_set_same (h : Heap α) (a : Nat) (x : List α) (ha : a < h.length) : Heap.array (h.set a x) a = x := by
  simp [Heap.array, List.getD, List.getElem?_set, ha]

theorem array_set_other (h : Heap α) (a b : Nat) (x : List α) (hab : b ≠ a) : Heap.array (h.set a x) b = h.array b := by
  simp [Heap.array, List.getD, List.getElem?_set, Ne.symm hab]

theorem read_length (h : Heap α) (s : Slice) (wf : s.WF h) : (h.read s).length = s.len := by
  obtain ⟨_, h2, h3⟩ := wf
  simp [Heap.read]; omega

theorem writeAt_length (a : List α) (p : Nat) (bs : List α) (hp : p + bs.length ≤ a.length) :
    (writeAt a p bs).length = a.length := by
  simp [writeAt]; omega

theorem writeAt_take (a : List α) (p : Nat) (bs : List α) (hp : p + bs.length ≤ a.length) :
    (writeAt a p bs).take p = a.take p := by
  have : (a.take p).length = p := by simp; omega
  simp [writeAt, List.append_assoc, List.take_append_of_le_length, this]

theorem writeAt_window (a : List α) (p : Nat) (bs : List α) (hp : p + bs.length ≤ a.length) :
    ((writeAt a p bs).drop p).take bs.length = bs := by
  have : (a.take p).length = p := by simp; omega
  simp [writeAt, List.append_assoc, List.drop_append_of_le_length, this, List.take_append_of_le_length]

/-- the result of an append reads as the old contents followed by the new bytes -/
theorem append_read (h : Heap α) (s : Slice) (bs : List α) (wf : s.WF h) :
    (append h s bs).1.read (append h s bs).2 = h.read s ++ bs := by
  obtain ⟨h1, h2, h3⟩ := wf
  unfold append
  split
  · rename_i hfit
    have hp : s.off + s.len + bs.length ≤ (h.array s.arr).length := by omega
    simp only [Heap.read, array_set_same h _ _ h1]
    -- split the window [off, off+len+|bs|) at off+len
    have e1 : ((writeAt (h.array s.arr) (s.off + s.len) bs).drop s.off).take (s.len + bs.length)
        = ((writeAt (h.array s.arr) (s.off + s.len) bs).drop s.off).take s.len
          ++ (((writeAt (h.array s.arr) (s.off + s.len) bs).drop s.off).drop s.len).take bs.length := by
      rw [List.take_add]
    rw [e1, List.drop_drop, writeAt_window _ _ _ hp]
    congr 1
    -- the first `len` cells of the window are untouched
    have : ((writeAt (h.array s.arr) (s.off + s.len) bs).drop s.off).take s.len
        = (((writeAt (h.array s.arr) (s.off + s.len) bs).take (s.off + s.len)).drop s.off) := by
      rw [List.drop_take]; congr 1; omega
    rw [this, writeAt_take _ _ _ hp, List.drop_take]
    congr 1; omega
  · have hl : (h.read s).length = s.len := read_length h s ⟨h1, h2, h3⟩
    simp only [Heap.read, array_append_new, List.drop_zero]
    rw [List.append_assoc, ← List.append_assoc]
    rw [List.take_append_of_le_length (by simp [Heap.read] at hl ⊢; omega)]
    apply List.take_of_length_le
    simp [Heap.read] at hl ⊢; omega

/-- an append changes no other array, keeps every array's length, and in the slice's own array leaves everything
    before offset+length alone: only spare capacity is written -/
theorem append_frame (h : Heap α) (s : Slice) (bs : List α) (wf : s.WF h) (a : Nat) (ha : a < h.length) :
    (a ≠ s.arr → (append h s bs).1.array a = h.array a) ∧
    ((append h s bs).1.array a).length = (h.array a).length ∧
    ((append h s bs).1.array a).take (if a = s.arr then s.off + s.len else (h.array a).length) =
      (h.array a).take (if a = s.arr then s.off + s.len else (h.array a).length) := by
  obtain ⟨h1, h2, h3⟩ := wf
  unfold append
  split
  · rename_i hfit
    have hp : s.off + s.len + bs.length ≤ (h.array s.arr).length := by omega
    by_cases e : a = s.arr
    · subst e
      simp only [array_set_same h _ _ h1, if_true]
      exact ⟨fun c => absurd rfl c, writeAt_length _ _ _ hp, writeAt_take _ _ _ hp⟩
    · simp [array_set_other h _ _ _ e, e]
  · simp [array_append_lt h _ a ha]

/-- every slice that does not reach into the spare capacity being written reads as before -/
theorem append_preserves_read (h : Heap α) (s t : Slice) (bs : List α) (wf : s.WF h) (wt : t.WF h)
    (disj : t.arr = s.arr → t.off + t.len ≤ s.off + s.len) :
    (append h s bs).1.read t = h.read t := by
  obtain ⟨f1, f2, f3⟩ := append_frame h s bs wf t.arr wt.1
  by_cases e : t.arr = s.arr
  · have d := disj e
    simp only [e, if_true] at f3
    simp only [Heap.read]
    -- the window [t.off, t.off+t.len) lies inside the unchanged prefix
    have w : ∀ (x : List α), (x.drop t.off).take t.len = ((x.take (s.off + s.len)).drop t.off).take t.len := by
      intro x
      rw [List.drop_take, List.take_take]
      congr 1; omega
    rw [w, w (h.array t.arr), e, f3]
  · simp [Heap.read, f1 e]

/-- what `Tx.Inscribe` does since fix f38a724: copy the prefix, then append -/
def copyThenAppend (h : Heap α) (s : Slice) (bs : List α) : Heap α × Slice :=
  append (copyOf h s).1 (copyOf h s).2 bs

theorem copyOf_wf (h : Heap α) (s : Slice) (wf : s.WF h) : (copyOf h s).2.WF (copyOf h s).1 := by
  have := read_length h s wf
  simp [copyOf, Slice.WF, array_append_new, this]

/-- the result reads as prefix ++ bytes: the value model (`pre ++ envelope`) describes it exactly -/
theorem copyThenAppend_read (h : Heap α) (s : Slice) (bs : List α) (wf : s.WF h) :
    (copyThenAppend h s bs).1.read (copyThenAppend h s bs).2 = h.read s ++ bs := by
  unfold copyThenAppend
  rw [append_read _ _ _ (copyOf_wf h s wf)]
  have hl := read_length h s wf
  have : (copyOf h s).1.read (copyOf h s).2 = h.read s := by
    show ((Heap.array (h ++ [h.read s]) h.length).drop 0).take s.len = h.read s
    rw [array_append_new, List.drop_zero]
    exact List.take_of_length_le (by omega)
  rw [this]

/-- … and no array of the caller's heap is touched: every slice the caller holds reads as before -/
theorem copyThenAppend_frame (h : Heap α) (s : Slice) (bs : List α) (wf : s.WF h) (a : Nat) (ha : a < h.length) :
    (copyThenAppend h s bs).1.array a = h.array a := by
  unfold copyThenAppend
  have hc := copyOf_wf h s wf
  have ha' : a < (copyOf h s).1.length := by simp [copyOf]; omega
  have hne : a ≠ (copyOf h s).2.arr := by simp [copyOf]; omega
  rw [(append_frame _ _ bs hc a ha').1 hne]
  simp [copyOf, array_append_lt h _ a ha]

theorem copyThenAppend_preserves_read (h : Heap α) (s t : Slice) (bs : List α) (wf : s.WF h) (wt : t.WF h) :
    (copyThenAppend h s bs).1.read t = h.read t := by
  simp [Heap.read, copyThenAppend_frame h s bs wf t.arr wt.1]

theorem append_length (h : Heap α) (s : Slice) (bs : List α) : h.length ≤ (append h s bs).1.length := by
  unfold append; split <;> simp

theorem append_arr (h : Heap α) (s : Slice) (bs : List α) :
    (append h s bs).2.arr = s.arr ∨ (append h s bs).2.arr = h.length := by
  unfold append; split <;> simp

/-- the result of an append is again a well-formed slice -/
theorem append_wf (h : Heap α) (s : Slice) (bs : List α) (wf : s.WF h) : (append h s bs).2.WF (append h s bs).1 := by
  have hl := read_length h s wf
  obtain ⟨h1, h2, h3⟩ := wf
  unfold append
  split
  · rename_i hfit
    have hp : s.off + s.len + bs.length ≤ (h.array s.arr).length := by omega
    refine ⟨by simpa using h1, ?_, hfit⟩
    show s.off + s.cap ≤ (Heap.array (h.set s.arr _) s.arr).length
    rw [array_set_same h _ _ h1, writeAt_length _ _ _ hp]; exact h2
  · refine ⟨by simp, ?_, by simp; omega⟩
    show 0 + 2 * (s.len + bs.length) ≤ (Heap.array (h ++ [_]) h.length).length
    rw [array_append_new]; simp [hl]; omega

/-- a run of appends, as `Tx.Inscribe` makes them (opcodes, push prefix + data, …) -/
def appends (h : Heap α) (s : Slice) : List (List α) → Heap α × Slice
  | [] => (h, s)
  | b :: bs => appends (append h s b).1 (append h s b).2 bs

theorem appends_read (h : Heap α) (s : Slice) (bss : List (List α)) (wf : s.WF h) :
    (appends h s bss).1.read (appends h s bss).2 = h.read s ++ bss.flatten := by
  induction bss generalizing h s with
  | nil => simp [appends]
  | cons b bs ih =>
    simp only [appends, List.flatten_cons]
    rw [ih _ _ (append_wf h s b wf), append_read h s b wf, List.append_assoc]

/-- appends through a slice living in an array the caller has never seen (index ≥ n) touch no array below n -/
theorem appends_frame (n : Nat) (h : Heap α) (s : Slice) (bss : List (List α)) (wf : s.WF h)
    (hn : n ≤ s.arr) (a : Nat) (ha : a < n) : (appends h s bss).1.array a = h.array a := by
  induction bss generalizing h s with
  | nil => simp [appends]
  | cons b bs ih =>
    simp only [appends]
    have hs : s.arr < h.length := wf.1
    have hn' : n ≤ (append h s b).2.arr := by
      rcases append_arr h s b with e | e <;> rw [e] <;> omega
    rw [ih _ _ (append_wf h s b wf) hn']
    exact (append_frame h s b wf a (by omega)).1 (by omega)

/-- `Tx.Inscribe` since fix f38a724, on the heap: copy the prefix, then the run of appends.  The result reads as
    prefix ++ all appended bytes, and every slice the caller held reads as before. -/
def copyThenAppends (h : Heap α) (s : Slice) (bss : List (List α)) : Heap α × Slice :=
  appends (copyOf h s).1 (copyOf h s).2 bss

theorem copyOf_read (h : Heap α) (s : Slice) (wf : s.WF h) : (copyOf h s).1.read (copyOf h s).2 = h.read s := by
  have hl := read_length h s wf
  show ((Heap.array (h ++ [h.read s]) h.length).drop 0).take s.len = h.read s
  rw [array_append_new, List.drop_zero]
  exact List.take_of_length_le (by omega)

theorem copyThenAppends_read (h : Heap α) (s : Slice) (bss : List (List α)) (wf : s.WF h) :
    (copyThenAppends h s bss).1.read (copyThenAppends h s bss).2 = h.read s ++ bss.flatten := by
  unfold copyThenAppends
  rw [appends_read _ _ _ (copyOf_wf h s wf), copyOf_read h s wf]

theorem copyThenAppends_preserves_read (h : Heap α) (s t : Slice) (bss : List (List α)) (wf : s.WF h) (wt : t.WF h) :
    (copyThenAppends h s bss).1.read t = h.read t := by
  unfold copyThenAppends
  have := appends_frame h.length (copyOf h s).1 (copyOf h s).2 bss (copyOf_wf h s wf) (by simp [copyOf]) t.arr wt.1
  simp only [Heap.read, this]
  simp [copyOf, array_append_lt h _ t.arr wt.1]

/-- `buf := make([]byte, 0)` followed by a run of appends: how every preimage / serialisation routine of the library
    assembles its result (the regenerated obligation `lib_writes_only_fresh_buffers` checks that they do) -/
def freshAppends (h : Heap α) (bss : List (List α)) : Heap α × Slice :=
  appends (h ++ [[]]) { arr := h.length, off := 0, len := 0, cap := 0 } bss

theorem fresh_wf (h : Heap α) : ({ arr := h.length, off := 0, len := 0, cap := 0 } : Slice).WF (h ++ [([] : List α)]) := by
  simp [Slice.WF, array_append_new]

theorem freshAppends_read (h : Heap α) (bss : List (List α)) :
    (freshAppends h bss).1.read (freshAppends h bss).2 = bss.flatten := by
  unfold freshAppends
  rw [appends_read _ _ _ (fresh_wf h)]
  simp [Heap.read, array_append_new]

/-- the assembly touches nothing the caller can see: every slice valid before reads the same afterwards -/
theorem freshAppends_preserves_read (h : Heap α) (bss : List (List α)) (t : Slice) (wt : t.WF h) :
    (freshAppends h bss).1.read t = h.read t := by
  unfold freshAppends
  have := appends_frame h.length (h ++ [[]]) { arr := h.length, off := 0, len := 0, cap := 0 } bss (fresh_wf h)
    (by simp) t.arr wt.1
  simp only [Heap.read, this, array_append_lt h _ t.arr wt.1]

/-- Witness for the header-only copy (`s := *prefix`): the prefix is the first 2 cells of a 6-cell script (capacity 6, as
    `Slice(0, 25)` of a parsed inscription has the capacity of the whole script); appending 3 bytes through it overwrites
    cells 2..4 of the script it was cut from. -/
theorem header_copy_clobbers :
    let h : Heap Nat := [[1, 2, 10, 11, 12, 13]]
    let script : Slice := { arr := 0, off := 0, len := 6, cap := 6 }
    let pre : Slice := { arr := 0, off := 0, len := 2, cap := 6 }
    h.read script = [1, 2, 10, 11, 12, 13] ∧
    (append h pre [7, 8, 9]).1.read script = [1, 2, 7, 8, 9, 13] ∧
    (copyThenAppend h pre [7, 8, 9]).1.read script = [1, 2, 10, 11, 12, 13] ∧
    (copyThenAppend h pre [7, 8, 9]).1.read (copyThenAppend h pre [7, 8, 9]).2 = [1, 2, 7, 8, 9] := by
  decide

end GoBT.SliceHeap
