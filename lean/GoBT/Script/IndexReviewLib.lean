/-
  The same inventory as GoBT/Interp/IndexReview.lean for the other two packages whose code is modelled:
  the root package `bt` (wire codec, sighash, fees) and `bscript` (script codecs, inspection, addresses, BIP276).
  Per function: how many index / slice expressions the current source has, and why they are in range — or that
  the function is outside the properties (API misuse / dead code), so that nobody mistakes silence for coverage.
-/
import GoBT.Script.IndexReviewedLib
import GoBT.Gen.IndexingBt
import GoBT.Gen.IndexingBscript
namespace GoBT.Script

def indexReviewBt : List (String × Nat × String) := [
  ("ReverseBytes", 4, "tmp allocated with len(a); i < j < len(a)."),
  ("readBytes", 2, "buf[:n] / buf[len(buf)-chunk:] on a buffer just grown by the chunk (fix b3de4b7). Model: Rd readers, C09.chunk_matches_source."),
  ("Tx.CalcInputPreimageLegacy", 11, "tx.Inputs[inputNumber] after the inputNumber range test (checkInput); clone's inputs/outputs indexed by loop variables over their own ranges; SINGLE slices outputs[:inputNumber+1] only after inputNumber < len(outputs). Model: preimageLegacy (C03)."),
  ("Tx.OutputsHash", 1, "tx.Outputs[n:n+1] reached only with n < len(outputs) (caller tests). Model: preimageForkID."),
  ("Tx.Clone", 2, "clone.Inputs[i] / tx.Inputs[i] in a loop over tx.Inputs after the two lengths were compared (log.Fatal otherwise). Model: clone."),
  ("Tx.InputIdx", 1, "upper bound tested; a negative index panics — caller misuse, outside the properties."),
  ("Tx.OutputIdx", 1, "as Tx.InputIdx."),
  ("Tx.IsCoinbase", 3, "tx.Inputs[0] after len(tx.Inputs) == 1."),
  ("Tx.ChangeToExistingOutput", 1, "tx.Outputs[index] after the index range test. Model: change (.existing)."),
  ("Tx.InsertInputUnlockingScript", 2, "tx.Inputs[index] without a range test: an out-of-range index panics instead of returning the error below — reached from FillInput with the caller's InputIdx; the properties quantify over valid signed positions only (C04)."),
  ("nodeTxsWrapper.MarshalJSON", 1, "txs allocated with len(nn), i ranges over nn."),
  ("nodeUTXOsWrapper.MarshalJSON", 1, "as nodeTxsWrapper.MarshalJSON."),
  ("newOutputFromBytes", 3, "dead code (no caller); would slice after length tests except inside NewVarIntFromBytes."),
  ("NewVarIntFromBytes", 5, "bb[0], bb[1:9] … without length tests: panics on short input. Public, but only called from dead code and not one of the decoding entry points C09 lists (those use VarInt.ReadFrom)."),
  ("VarInt.Bytes", 10, "fixed 9-byte buffer, constant indices."),
  ("VarInt.ReadFrom", 2, "b[0] of a 1-byte buffer filled by io.ReadFull. Model: varintRead.")
]

def indexReviewBscript : List (String × Nat × String) := [
  ("Base58EncodeMissingChecksum", 2, "checksum(...)[:4]-style slices of a 32-byte hash."),
  ("NewAddressFromPublicKey", 1, "slice of a fixed-size hash."),
  ("NewAddressFromPublicKeyHash", 1, "slice of a fixed-size hash / constant-size buffer."),
  ("addressToPubKeyHashStr", 3, "decoded[0], decoded[1:21] after len(decoded) == 25. Model: addressToPKH."),
  ("checksum", 2, "first four bytes of a 32-byte double hash."),
  ("a25.computeChecksum", 2, "fixed 25-byte array."),
  ("a25.embeddedChecksum", 2, "fixed 25-byte array."),
  ("a25.set58", 2, "j ranges over the fixed array. Model: set58."),
  ("validA58", 3, "fixed 25-byte array. Model: validA58."),
  ("DecodeBIP276", 5, "res[1..5] after the regular expression matched (six groups whenever it matches). Model: decodeBip276."),
  ("createBIP276", 1, "first four bytes of a 32-byte double hash."),
  ("DecodeParts", 20, "every read follows a length test on the remaining bytes. Model: decodeStep / decodePartsAux (C13)."),
  ("MinPushSize", 2, "bb[0] under l == 1."),
  ("NewP2PKHFromBip32ExtKey", 2, "derivation path helper over fixed-size buffers; not modelled, not in a property's scope."),
  ("Script.IsData", 3, "b[0], b[1] under the length tests. Model: isData."),
  ("Script.IsMultiSigOut", 10, "parts indexed after len(parts) >= 3 and per-part length tests (fix 5ae7176). Model: isMultiSigOut with explicit `?` indexing; C14.isMultiSigOut_total."),
  ("Script.IsP2PK", 6, "parts[0], parts[1] after len(parts) == 2 and non-empty tests (fix 5ae7176). Model: isP2PK; C14.isP2PK_total."),
  ("Script.IsP2PKH", 5, "b[0..24] after len(b) == 25. Model: isP2PKH."),
  ("Script.IsP2SH", 3, "b[0], b[1], b[22] after len(b) == 23. Model: isP2SH."),
  ("Script.ParseInscription", 7, "p[9], p[11] after the helper accepted (>= 13 parts); the opcode walk is guarded by off < len(*s) and i <= 11 (fix 3a7be83). Model: parseInscription / inscZeroFlags; C14.inscZeroFlags_total."),
  ("Script.PublicKeyHash", 4, "(*s)[0], (*s)[1], (*s)[2:] after the length tests; parts[0] of a non-empty remainder. Model: publicKeyHash; C14.inspect_no_panic."),
  ("Script.Slice", 1, "ss[start:end] with the caller's bounds: misuse panics; the one internal use (ParseInscription, 0..25) is guarded by a length test."),
  ("Script.ToASM", 7, "(*s)[0], (*s)[1] under len > 1; p[0] under len(p) == 1; asm.String()[1:] is non-empty because every part writes a leading space and a failed decode writes ' [error]'. Model: toAsmTokens."),
  ("isP2PKHInscriptionHelper", 29, "every parts[i][j] follows the guards added by fix 5ae7176 (>= 13 parts, inspected parts non-empty, marker >= 3 bytes). Model: isP2PKHInscriptionParts with explicit `?` indexing; C14.isP2PKHInscriptionParts_total.")
]

def occurrencesIn (l : List (String × String)) (fn e : String) : Nat := (l.filter fun s => s.1 == fn && s.2 == e).length

/-- every function with a site has a review entry; every current expression is a reviewed one of its function, at most as
    many times as reviewed -/
def reviewOk (sites : List (String × String × String)) (review : List (String × Nat × String))
    (reviewed : List (String × String)) : Bool :=
  let cur := sites.map fun s => (s.2.1, s.2.2)
  (cur.all fun s => review.any fun r => r.1 == s.1) &&
  (cur.all fun s => occurrencesIn cur s.1 s.2 ≤ occurrencesIn reviewed s.1 s.2)

def unreviewed (sites : List (String × String × String)) (review : List (String × Nat × String))
    (reviewed : List (String × String)) : List (String × String) :=
  let cur := sites.map fun s => (s.2.1, s.2.2)
  cur.filter fun s => !(review.any fun r => r.1 == s.1) || occurrencesIn cur s.1 s.2 > occurrencesIn reviewed s.1 s.2

def indexReviewBtOk : Bool := reviewOk GoBT.Gen.IndexingBt.sites indexReviewBt reviewedSitesBt
def indexReviewBscriptOk : Bool := reviewOk GoBT.Gen.IndexingBscript.sites indexReviewBscript reviewedSitesBscript

end GoBT.Script
