/-
  The converse round trip of the interpreter's opcode parser: unparsing a list of well-formed parsed opcodes (without
  OP_RETURN) and parsing the bytes gives the list back.  (`C13.unparse_parse` is the other direction.)  Used to discharge
  "the parser reads this script as …" hypotheses for scripts built from pushes of any length.  Core Lean only.
-/
import GoBT.Script.Parse
namespace GoBT.Script
open GoBT

/-- the parsed opcode is in the shape the parser produces for its opcode value -/
def POp.WF (o : POp) : Prop :=
  if 1 ≤ o.op.toNat ∧ o.op.toNat ≤ 75 then o.data.length = o.op.toNat ∧ o.len = (o.op.toNat : Int) + 1
  else if o.op = opPUSHDATA1 then o.data.length < 256 ∧ o.len = -1
  else if o.op = opPUSHDATA2 then o.data.length < 65536 ∧ o.len = -2
  else if o.op = opPUSHDATA4 then o.data.length < 2 ^ 32 ∧ o.len = -4
  else o.data = [] ∧ o.len = 1

/-- one parser step on the encoding of a well-formed opcode -/
theorem parse_step (errCS : Bool) (fuel : Nat) (o : POp) (b1 rest : Bytes) (cond : Int)
    (hwf : o.WF) (hret : o.op ≠ opRETURN) (hcs : errCS = true → requiresTx o.op = false) (hob : o.bytes = .ok b1) :
    ∃ cond', parseAux true errCS (fuel + 1) (b1 ++ rest) cond = (parseAux true errCS fuel rest cond').map (o :: ·) := by
  have hcsf : (errCS && requiresTx o.op) = false := by
    cases errCS with
    | false => rfl
    | true => simp [hcs rfl]
  obtain ⟨op, data, len⟩ := o
  simp only at hwf hret hcs hcsf hob
  unfold POp.WF at hwf
  simp only at hwf
  refine ⟨if isCondOpen op then cond + 1 else if op = opENDIF then cond - 1 else cond, ?_⟩
  by_cases h1 : 1 ≤ op.toNat ∧ op.toNat ≤ 75
  · simp only [h1, and_self, ↓reduceIte] at hwf
    obtain ⟨hdl, hlen⟩ := hwf
    subst hlen
    have hol : opLength op = (op.toNat : Int) + 1 := by unfold opLength; simp [h1]
    have a1 : ¬ ((op.toNat : Int) + 1 = 1) := by omega
    have a2 : (op.toNat : Int) + 1 > 1 := by omega
    have a3 : ((op.toNat : Int) + 1).toNat - 1 = data.length := by omega
    have a4 : ¬ ((data ++ rest).length < data.length) := by simp
    have a5 : ¬ (1 + data.length ≠ ((op.toNat : Int) + 1).toNat) := by omega
    have hb1 : b1 = op :: data := by
      unfold POp.bytes at hob
      simp only [a1, ↓reduceIte, a2, a5, Except.ok.injEq] at hob
      exact hob.symm
    subst hb1
    simp only [List.cons_append, parseAux, hcsf, Bool.false_eq_true, ↓reduceIte, hret, decide_false,
      Bool.and_false, Bool.false_and, hol, a1, a2, a3, a4, List.take_left', List.drop_left']
  · simp only [h1, ↓reduceIte] at hwf
    by_cases h2 : op = opPUSHDATA1
    · subst h2
      simp only [↓reduceIte] at hwf
      obtain ⟨hdl, hlen⟩ := hwf
      subst hlen
      have hrt : leDec (leEnc 1 data.length) = data.length := leDec_leEnc_of_lt (by simpa using hdl)
      have hb1 : b1 = opPUSHDATA1 :: (leEnc 1 data.length ++ data) := by
        unfold POp.bytes at hob
        have e : (-(-1 : Int)).toNat = 1 := rfl
        simp only [show ¬ ((-1 : Int) = 1) by decide, ↓reduceIte, show ¬ ((-1 : Int) > 1) by decide, e, hrt,
          ne_eq, not_true_eq_false, Except.ok.injEq] at hob
        exact hob.symm
      subst hb1
      have hl1 : leEnc 1 data.length = [UInt8.ofNat (data.length % 256)] := by simp [leEnc]
      have htn : (UInt8.ofNat (data.length % 256)).toNat = data.length := by
        simp [UInt8.toNat_ofNat, Nat.mod_eq_of_lt hdl]
      have a4 : ¬ ((data ++ rest).length < data.length) := by simp
      simp only [hl1, List.cons_append, List.nil_append, parseAux, hcsf, Bool.false_eq_true, ↓reduceIte]
      simp only [show (opPUSHDATA1 = opRETURN) = False by decide, decide_false, Bool.and_false, Bool.false_and,
        Bool.false_eq_true, ↓reduceIte, show opLength opPUSHDATA1 = -1 by decide, show ¬ ((-1 : Int) = 1) by decide,
        show ¬ ((-1 : Int) > 1) by decide, show (-(-1 : Int)).toNat = 1 by rfl]
      simp [leDec, htn, a4]
      intro h; omega
    · simp only [h2, ↓reduceIte] at hwf
      by_cases h3 : op = opPUSHDATA2
      · subst h3
        simp only [↓reduceIte] at hwf
        obtain ⟨hdl, hlen⟩ := hwf
        subst hlen
        have hrt : leDec (leEnc 2 data.length) = data.length := leDec_leEnc_of_lt (by simpa using hdl)
        have hb1 : b1 = opPUSHDATA2 :: (leEnc 2 data.length ++ data) := by
          unfold POp.bytes at hob
          have e : (-(-2 : Int)).toNat = 2 := rfl
          simp only [show ¬ ((-2 : Int) = 1) by decide, ↓reduceIte, show ¬ ((-2 : Int) > 1) by decide, e, hrt,
            ne_eq, not_true_eq_false, Except.ok.injEq] at hob
          exact hob.symm
        subst hb1
        have hk : (leEnc 2 data.length).length = 2 := leEnc_length 2 _
        have a4 : ¬ ((data ++ rest).length < data.length) := by simp
        have a5 : ¬ ((leEnc 2 data.length ++ (data ++ rest)).length < 2) := by simp
        simp only [List.cons_append, List.append_assoc, parseAux, hcsf, Bool.false_eq_true, ↓reduceIte]
        simp only [show (opPUSHDATA2 = opRETURN) = False by decide, decide_false, Bool.and_false, Bool.false_and,
          Bool.false_eq_true, ↓reduceIte, show opLength opPUSHDATA2 = -2 by decide, show ¬ ((-2 : Int) = 1) by decide,
          show ¬ ((-2 : Int) > 1) by decide, show (-(-2 : Int)).toNat = 2 by rfl, a5, List.take_left' hk,
          List.drop_left' hk, hrt]
        simp [a4]
        intro h; omega
      · simp only [h3, ↓reduceIte] at hwf
        by_cases h4 : op = opPUSHDATA4
        · subst h4
          simp only [↓reduceIte] at hwf
          obtain ⟨hdl, hlen⟩ := hwf
          subst hlen
          have hrt : leDec (leEnc 4 data.length) = data.length := leDec_leEnc_of_lt (by simpa using hdl)
          have hb1 : b1 = opPUSHDATA4 :: (leEnc 4 data.length ++ data) := by
            unfold POp.bytes at hob
            have e : (-(-4 : Int)).toNat = 4 := rfl
            simp only [show ¬ ((-4 : Int) = 1) by decide, ↓reduceIte, show ¬ ((-4 : Int) > 1) by decide, e, hrt,
              ne_eq, not_true_eq_false, Except.ok.injEq] at hob
            exact hob.symm
          subst hb1
          have hk : (leEnc 4 data.length).length = 4 := leEnc_length 4 _
          have a4 : ¬ ((data ++ rest).length < data.length) := by simp
          have a5 : ¬ ((leEnc 4 data.length ++ (data ++ rest)).length < 4) := by simp
          simp only [List.cons_append, List.append_assoc, parseAux, hcsf, Bool.false_eq_true, ↓reduceIte]
          simp only [show (opPUSHDATA4 = opRETURN) = False by decide, decide_false, Bool.and_false, Bool.false_and,
            Bool.false_eq_true, ↓reduceIte, show opLength opPUSHDATA4 = -4 by decide, show ¬ ((-4 : Int) = 1) by decide,
            show ¬ ((-4 : Int) > 1) by decide, show (-(-4 : Int)).toNat = 4 by rfl, a5, List.take_left' hk,
            List.drop_left' hk, hrt]
          simp [a4]
          intro h; omega
        · simp only [h4, ↓reduceIte] at hwf
          obtain ⟨hd, hlen⟩ := hwf
          subst hd hlen
          have hb1 : b1 = [op] := by
            unfold POp.bytes at hob
            simp at hob
            exact hob.symm
          subst hb1
          have hol : opLength op = 1 := by
            unfold opLength
            simp [h1, h2, h3, h4]
          simp only [List.cons_append, List.nil_append, parseAux, hcsf, Bool.false_eq_true, ↓reduceIte, hret,
            decide_false, Bool.and_false, Bool.false_and, hol]

/-- **parse ∘ unparse = id** on well-formed opcode lists without OP_RETURN -/
theorem parse_unparse (errCS : Bool) (ops : List POp) :
    ∀ (fuel : Nat) (bytes : Bytes) (cond : Int),
      (∀ o ∈ ops, o.WF ∧ o.op ≠ opRETURN ∧ (errCS = true → requiresTx o.op = false)) →
      unparse ops = .ok bytes → ops.length ≤ fuel →
      parseAux true errCS fuel bytes cond = .ok ops := by
  induction ops with
  | nil =>
    intro fuel bytes cond _ hb _
    simp only [unparse, Except.ok.injEq] at hb
    subst hb
    cases fuel <;> rfl
  | cons o rest ih =>
    intro fuel bytes cond hall hb hf
    obtain ⟨hwf, hret, hcs⟩ := hall o (List.mem_cons_self)
    have hrest := fun x hx => hall x (List.mem_cons_of_mem _ hx)
    cases fuel with
    | zero => simp at hf
    | succ fuel =>
      simp only [List.length_cons, Nat.add_le_add_iff_right] at hf
      simp only [unparse, bind, Except.bind] at hb
      cases hob : o.bytes with
      | error e => simp [hob] at hb
      | ok b1 =>
        simp only [hob] at hb
        cases hur : unparse rest with
        | error e => simp [hur] at hb
        | ok r =>
          simp only [hur, pure, Except.pure, Except.ok.injEq] at hb
          subst hb
          obtain ⟨cond', hstep⟩ := parse_step errCS fuel o b1 r cond hwf hret hcs hob
          rw [hstep, ih fuel r cond' hrest hur hf]
          rfl

/-- the whole script: `parseScript (unparse ops) = ops` -/
theorem parseScript_unparse (errCS : Bool) (ops : List POp) (bytes : Bytes)
    (hall : ∀ o ∈ ops, o.WF ∧ o.op ≠ opRETURN ∧ (errCS = true → requiresTx o.op = false))
    (hb : unparse ops = .ok bytes) (hlen : ops.length ≤ bytes.length) : parseScript bytes errCS = .ok ops :=
  parse_unparse errCS ops bytes.length bytes 0 hall hb hlen

end GoBT.Script
