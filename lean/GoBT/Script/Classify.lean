/-
  bscript/script.go: the inspection queries (IsP2PKH / IsP2PK / IsP2SH / IsData / IsMultiSigOut /
  IsP2PKHInscription, ScriptType, PublicKeyHash, ParseInscription) with Go's indexing made explicit:
  every `x[i]` of the Go code is `x[i]?` here and `none` stands for the run-time panic
  "index out of range".  The guards are the ones present in the code.  Core Lean only.
-/
import GoBT.Script.Push
namespace GoBT.Script
open GoBT

/-- outcome of a query that can panic in Go: `none` = panic -/
abbrev Chk (α : Type) := Option α

def opDUP : UInt8 := 0x76
def opHASH160 : UInt8 := 0xa9
def opEQUALVERIFY : UInt8 := 0x88
def opEQUAL : UInt8 := 0x87
def opCHECKSIG : UInt8 := 0xac
def opCHECKMULTISIG : UInt8 := 0xae
def opIF : UInt8 := 0x63
def opENDIFc : UInt8 := 0x68
def opTRUE : UInt8 := 0x51

/-- Script.IsP2PKH: exactly the 25-byte template (all indexing is guarded by the length test) -/
def isP2PKH (s : Bytes) : Bool :=
  s.length == 25 && s[0]? == some opDUP && s[1]? == some opHASH160 && s[2]? == some 0x14 &&
  s[23]? == some opEQUALVERIFY && s[24]? == some opCHECKSIG

/-- Script.IsP2SH -/
def isP2SH (s : Bytes) : Bool :=
  s.length == 23 && s[0]? == some opHASH160 && s[1]? == some 0x14 && s[22]? == some opEQUAL

/-- Script.IsData -/
def isData (s : Bytes) : Bool :=
  (s.length > 0 && s[0]? == some opRETURN) || (s.length > 1 && s[0]? == some 0x00 && s[1]? == some opRETURN)

def isSmallIntOp (b : UInt8) : Bool := b == 0x00 || (0x51 ≤ b.toNat && b.toNat ≤ 0x60)

/-- Script.IsP2PK -/
def isP2PK (s : Bytes) : Chk Bool :=
  let (parts, ok) := decodeParts s
  if !ok then some false else
  if parts.length == 2 then do
    let p0 ← parts[0]?
    let p1 ← parts[1]?
    if p0.length > 0 && p1.length > 0 then
      let c ← p1[0]?
      if c == opCHECKSIG then
        let version ← p0[0]?
        if (version == 0x04 || version == 0x06 || version == 0x07) && p0.length == 65 then pure true
        else if (version == 0x03 || version == 0x02) && p0.length == 33 then pure true
        else pure false
      else pure false
    else pure false
  else some false

/-- Script.IsMultiSigOut -/
def isMultiSigOut (s : Bytes) : Chk Bool :=
  let (parts, ok) := decodeParts s
  if !ok then some false else
  if parts.length < 3 then some false else do
    let p0 ← parts[0]?
    if p0.length == 0 then pure false else
    let b0 ← p0[0]?
    if !isSmallIntOp b0 then pure false else
    -- every key part is non-empty
    if ((parts.drop 1).take (parts.length - 3)).any (fun p => p.length < 1) then pure false else
    let pm ← parts[parts.length - 2]?
    let pl ← parts[parts.length - 1]?
    if pm.length > 0 then
      let bm ← pm[0]?
      if isSmallIntOp bm && pl.length > 0 then
        let bl ← pl[0]?
        pure (bl == opCHECKMULTISIG)
      else pure false
    else pure false

/-- the indices whose first byte isP2PKHInscriptionHelper looks at -/
def inscRequired : List Nat := [0, 1, 3, 4, 5, 6, 8, 10, 12]

/-- isP2PKHInscriptionHelper -/
def isP2PKHInscriptionParts (parts : List Bytes) : Chk Bool :=
  if parts.length < 13 then some false else
  -- guards: the parts that are indexed must be non-empty (the "ord" part needs three bytes)
  if inscRequired.any (fun i => (parts[i]?.getD []).length == 0) then some false else
  if (parts[7]?.getD []).length < 3 then some false else
  if parts.length > 13 && (parts[13]?.getD []).length == 0 then some false else do
    let f (i : Nat) : Chk UInt8 := do let p ← parts[i]?; p[0]?
    let p7 ← parts[7]?
    let valid :=
      (← f 0) == opDUP && (← f 1) == opHASH160 && (← f 3) == opEQUALVERIFY && (← f 4) == opCHECKSIG &&
      (← f 5) == 0x00 && (← f 6) == opIF &&
      (← p7[0]?) == 0x6f && (← p7[1]?) == 0x72 && (← p7[2]?) == 0x64 &&
      (← f 8) == opTRUE && (← f 10) == 0x00 && (← f 12) == opENDIFc
    if parts.length > 13 then
      pure ((← f 13) == opRETURN && valid)
    else pure valid

/-- Script.IsP2PKHInscription -/
def isP2PKHInscription (s : Bytes) : Chk Bool :=
  let (parts, ok) := decodeParts s
  if !ok then some false else isP2PKHInscriptionParts parts

inductive SType | empty | pubkeyhash | pubkey | multisig | nulldata | inscription | nonstandard
  deriving Repr, DecidableEq

def SType.name : SType → String
  | .empty => "empty" | .pubkeyhash => "pubkeyhash" | .pubkey => "pubkey" | .multisig => "multisig"
  | .nulldata => "nulldata" | .inscription => "pubkeyhashinscription" | .nonstandard => "nonstandard"

/-- Script.ScriptType, with Go's precedence -/
def scriptType (s : Bytes) : Chk SType :=
  if s.length == 0 then some .empty
  else if isP2PKH s then some .pubkeyhash
  else if isData s then some .nulldata
  else do
    if ← isP2PK s then pure .pubkey
    else if ← isMultiSigOut s then pure .multisig
    else if ← isP2PKHInscription s then pure .inscription
    else pure .nonstandard

inductive PKHRes | ok (h : Bytes) | errEmpty | errNotP2PKH | errDecode
  deriving Repr, DecidableEq

/-- Script.PublicKeyHash -/
def publicKeyHash (s : Bytes) : Chk PKHRes :=
  if s.length == 0 then some .errEmpty
  else if s[0]? != some opDUP || s.length ≤ 2 || s[1]? != some opHASH160 then some .errNotP2PKH
  else
    let (parts, ok) := decodeParts (s.drop 2)
    if !ok then some .errDecode
    else do
      let p ← parts[0]?
      pure (.ok p)

inductive InscRes | ok (prefix_ : Bytes) (contentType : Bytes) (data : Bytes) | errDecode | errNotFound
  deriving Repr, DecidableEq

/-- the loop of ParseInscription that walks the first twelve parts next to the script bytes: the offset of the
    opcode each part came from, and whether parts 9 / 11 (content type / payload) came from OP_0.
    `i` is the index of the next part, `off` the script offset, the Booleans the flags found so far.
    Reading `parts[i]` is Go's `p[i]` (`none` = panic); the script access is guarded by `off < len`. -/
def inscZeroFlags (s : Bytes) (parts : List Bytes) : Nat → Nat → Nat → Bool → Bool → Chk (Bool × Bool)
  | 0, _, _, z9, z11 => some (z9, z11)
  | fuel + 1, i, off, z9, z11 =>
    if i > 11 || off ≥ s.length then some (z9, z11) else do
      let op ← s[off]?
      let p ← parts[i]?
      let z9 := z9 || (op == 0x00 && i == 9)
      let z11 := z11 || (op == 0x00 && i == 11)
      let step :=
        if op == opPUSHDATA1 then 2 + p.length
        else if op == opPUSHDATA2 then 3 + p.length
        else if op == opPUSHDATA4 then 5 + p.length
        else if 0x01 ≤ op.toNat && op.toNat ≤ 0x4b then 1 + p.length
        else 1
      inscZeroFlags s parts fuel (i + 1) (off + step) z9 z11

/-- Script.ParseInscription (Slice(0,25) is guarded by a length check) -/
def parseInscription (s : Bytes) : Chk InscRes :=
  let (parts, ok) := decodeParts s
  if !ok then some .errDecode else do
    if !(← isP2PKHInscriptionParts parts) then pure .errNotFound
    else if s.length < 25 then pure .errNotFound
    else
      let ct ← parts[9]?
      let d ← parts[11]?
      let (z9, z11) ← inscZeroFlags s parts 12 0 0 false false
      pure (.ok (s.take 25) (if z9 then [] else ct) (if z11 then [] else d))

/-- the byte pattern Script.IsInscribed looks for: OP_FALSE OP_IF <push "ord"> -/
def inscriptionMarker : Bytes := [0x00, 0x63, 0x03, 0x6f, 0x72, 0x64]

/-- Script.IsInscribed: bytes.Contains(script, 0063036f7264) -/
def isInscribed (s : Bytes) : Bool := decide (inscriptionMarker <:+: s)

end GoBT.Script
