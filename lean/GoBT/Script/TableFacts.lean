/-
  Obligations over the regenerated tables (GoBT.Gen.Opcodes), discharged by kernel evaluation.
  Re-checked whenever the extractor output changes.  Restated in GoBT/Props/C13.lean.
-/
import GoBT.Script.Parse
import GoBT.Script.Asm
namespace GoBT.TableFacts
open GoBT GoBT.Script

/-- the model's `opLength` is the length column of the regenerated interpreter.opcodeArray,
    and row i sits at index i with value i -/
theorem opLength_matches_table :
    GoBT.Gen.opcodeArray.length = 256 ∧
    (GoBT.Gen.opcodeArray.zipIdx.all fun (r, i) =>
      r.idx == i && r.val == i && r.length == opLength (UInt8.ofNat i) && r.handler != "") = true := by
  decide +kernel

/-- every opcode value has an ASM name starting with "OP_", and the name maps back to the same value
    (so the two name tables are mutually inverse on opcode values) -/
theorem asm_tables_inverse :
    ((List.range 256).all fun v =>
      let name := opName (UInt8.ofNat v)
      name.startsWith "OP_" && opValue? name == some v) = true := by
  decide +kernel

/-- every ASM name accepted by NewFromASM starts with "OP_" — so no hex string is an opcode name -/
theorem asm_names_prefixed :
    (GoBT.Gen.opCodeStrings.all fun p => p.1.startsWith "OP_") = true := by
  decide +kernel

/-- no ASM name starts with a hexadecimal digit and none is empty — stated on the first character so that it can be
    used against `hexEnc` without string-prefix reasoning -/
theorem asm_names_first_char :
    (GoBT.Gen.opCodeStrings.all fun p => match p.1.toList with
      | [] => false
      | c :: _ => (hexVal c).isNone) = true := by
  decide +kernel

/-- every opcode value's name is non-empty -/
theorem asm_names_nonempty :
    ((List.range 256).all fun v => opName (UInt8.ofNat v) != "") = true := by
  decide +kernel

end GoBT.TableFacts
