/-
  bscript/oppushdata.go: PushDataPrefix, EncodeParts, DecodeParts; bscript.MinPushSize.
  Core Lean only.
-/
import GoBT.Basic.Bytes
namespace GoBT.Script
open GoBT

def opPUSHDATA1 : UInt8 := 0x4c
def opPUSHDATA2 : UInt8 := 0x4d
def opPUSHDATA4 : UInt8 := 0x4e
def opRETURN : UInt8 := 0x6a

/-- PushDataPrefix: `none` = ErrDataTooBig -/
def pushPrefix (n : Nat) : Option Bytes :=
  if n ≤ 75 then some [UInt8.ofNat n]
  else if n ≤ 0xFF then some [opPUSHDATA1, UInt8.ofNat n]
  else if n ≤ 0xFFFF then some (opPUSHDATA2 :: leEnc 2 n)
  else if n ≤ 0xFFFFFFFF then some (opPUSHDATA4 :: leEnc 4 n)
  else none

/-- EncodeParts -/
def encodeParts : List Bytes → Option Bytes
  | [] => some []
  | p :: ps => do
    let pre ← pushPrefix p.length
    let rest ← encodeParts ps
    pure (pre ++ p ++ rest)

/-- one step of DecodeParts: the next part and the remaining bytes; `none` = ErrDataTooSmall -/
def decodeStep (b0 : UInt8) (rest : Bytes) : Option (Bytes × Bytes) :=
  if b0 = opPUSHDATA1 then
    match rest with
    | [] => none
    | l :: r => if r.length < l.toNat then none else some (r.take l.toNat, r.drop l.toNat)
  else if b0 = opPUSHDATA2 then
    if rest.length < 2 then none else
    let l := leDec (rest.take 2)
    let r := rest.drop 2
    if r.length < l then none else some (r.take l, r.drop l)
  else if b0 = opPUSHDATA4 then
    if rest.length < 4 then none else
    let l := leDec (rest.take 4)
    let r := rest.drop 4
    if r.length < l then none else some (r.take l, r.drop l)
  else if 0x01 ≤ b0.toNat ∧ b0.toNat ≤ 0x4b then
    if rest.length < b0.toNat then none else some (rest.take b0.toNat, rest.drop b0.toNat)
  else some ([b0], rest)

/-- DecodeParts: the parts decoded so far and whether decoding completed without error -/
def decodePartsAux : Nat → Bytes → List Bytes × Bool
  | 0, _ => ([], true)
  | _ + 1, [] => ([], true)
  | fuel + 1, b0 :: rest =>
    match decodeStep b0 rest with
    | none => ([], false)
    | some (part, r) =>
      let (ps, ok) := decodePartsAux fuel r
      (part :: ps, ok)

def decodeParts (b : Bytes) : List Bytes × Bool := decodePartsAux b.length b

/-- MinPushSize -/
def minPushSize (bb : Bytes) : Nat :=
  let l := bb.length
  if l > 0xffffffff then 0
  else if l = 0 then 1
  else if l = 1 then (if (bb.headD 0).toNat ≤ 16 ∨ bb.headD 0 = 0x81 then 1 else 2)
  else if l ≤ 75 then l + 1
  else if l ≤ 0xff then l + 2
  else if l ≤ 0xffff then l + 3
  else l + 5

end GoBT.Script
