/-
  bscript/interpreter/opcodeparser.go: DefaultOpcodeParser.Parse / Unparse / ParsedOpcode.bytes,
  including the "Unformatted Data" pseudo-opcode created after a top-level OP_RETURN.
  Core Lean only.
-/
import GoBT.Script.Push
namespace GoBT.Script
open GoBT

/-- the `length` column of interpreter.opcodeArray, as a function of the opcode value
    (tied to the regenerated table in GoBT/Props/C13.lean) -/
def opLength (b : UInt8) : Int :=
  if 1 ≤ b.toNat ∧ b.toNat ≤ 75 then b.toNat + 1
  else if b = opPUSHDATA1 then -1
  else if b = opPUSHDATA2 then -2
  else if b = opPUSHDATA4 then -4
  else 1

/-- interpreter.ParsedOpcode: opcode value, data, and the `length` field of its opcode row
    (for the unformatted-data pseudo-opcode: the number of bytes it stands for). -/
structure POp where
  op : UInt8
  data : Bytes
  len : Int
  deriving Repr, DecidableEq, Inhabited

inductive PErr | malformedPush | requiresTx | internal
  deriving Repr, DecidableEq

def isCondOpen (b : UInt8) : Bool := b = 0x63 || b = 0x64  -- IF NOTIF (VERIF / VERNOTIF open nothing: they are reserved words, skipped when not executed)
def opENDIF : UInt8 := 0x68

/-- opcodes for which ParsedOpcode.RequiresTx is true -/
def requiresTx (b : UInt8) : Bool := b = 0xac || b = 0xad || b = 0xae || b = 0xaf || b = 0xb2

/-- DefaultOpcodeParser.Parse.  `topRet` switches the top-level OP_RETURN rule on (the real parser)
    or off (used to state agreement with DecodeParts); `errCS` is ErrorOnCheckSig. -/
def parseAux (topRet errCS : Bool) : Nat → Bytes → Int → Except PErr (List POp)
  | 0, _, _ => .ok []
  | _ + 1, [], _ => .ok []
  | fuel + 1, b :: rest, cond =>
    if errCS && requiresTx b then .error .requiresTx else
    let cond' := if isCondOpen b then cond + 1 else if b = opENDIF then cond - 1 else cond
    if topRet && b = opRETURN && cond = 0 then
      match rest with
      | [] => .ok [⟨b, [], 1⟩]
      | [x] => .ok [⟨b, [], 1⟩, ⟨x, [], 1⟩]
      | x :: more => .ok [⟨b, [], 1⟩, ⟨x, more, 1 + more.length⟩]
    else
      let l := opLength b
      if l = 1 then
        (parseAux topRet errCS fuel rest cond').map (⟨b, [], 1⟩ :: ·)
      else if l > 1 then
        let k := l.toNat - 1
        if rest.length < k then .error .malformedPush
        else (parseAux topRet errCS fuel (rest.drop k) cond').map (⟨b, rest.take k, l⟩ :: ·)
      else
        let k := (-l).toNat
        if rest.length < k then .error .malformedPush
        else
          let n := leDec (rest.take k)
          let r := rest.drop k
          if n > r.length then .error .malformedPush
          else (parseAux topRet errCS fuel (r.drop n) cond').map (⟨b, r.take n, l⟩ :: ·)

def parseScript (s : Bytes) (errCS : Bool := false) : Except PErr (List POp) :=
  parseAux true errCS s.length s 0

/-- ParsedOpcode.bytes -/
def POp.bytes (o : POp) : Except PErr Bytes :=
  if o.len = 1 then
    if o.data.length ≠ 0 then .error .internal else .ok [o.op]
  else if o.len > 1 then
    if 1 + o.data.length ≠ o.len.toNat then .error .internal else .ok (o.op :: o.data)
  else
    let k := (-o.len).toNat
    -- the length is written truncated to k bytes and re-read: a mismatch is an internal error
    if leDec (leEnc k o.data.length) ≠ o.data.length then .error .internal
    else .ok (o.op :: leEnc k o.data.length ++ o.data)

/-- DefaultOpcodeParser.Unparse -/
def unparse : List POp → Except PErr Bytes
  | [] => .ok []
  | o :: os => do
    let b ← o.bytes
    let r ← unparse os
    pure (b ++ r)

/-- what DecodeParts calls a "part" for an opcode: the data of a push, else the opcode byte itself -/
def POp.part (o : POp) : Bytes :=
  if 1 ≤ o.op.toNat ∧ o.op.toNat ≤ 0x4e then o.data else [o.op]

end GoBT.Script
