/-
  Helper lemmas about the token encoder of Props/C13 (`encToks`), used by the template theorems of Props/C14 and C20.
-/
import GoBT.Props.C13
namespace GoBT.C14
open GoBT GoBT.Script

/-- the first byte of an encoded push is a push opcode (1..0x4e), in particular neither OP_RETURN nor a small integer -/
theorem push_enc_head (k : Bytes) (hk : 1 ≤ k.length ∧ k.length < 2 ^ 32) :
    ∃ b rest, (C13.Tok.push k).enc = some (b :: rest) ∧ 1 ≤ b.toNat ∧ b.toNat ≤ 0x4e := by
  simp only [C13.Tok.enc, pushPrefix]
  by_cases c1 : k.length ≤ 75
  · refine ⟨UInt8.ofNat k.length, k, by simp [c1], ?_⟩
    have : (UInt8.ofNat k.length).toNat = k.length := by simp [UInt8.toNat_ofNat]; omega
    omega
  · by_cases c2 : k.length ≤ 0xFF
    · exact ⟨opPUSHDATA1, UInt8.ofNat k.length :: k, by simp [c1, c2], by decide⟩
    · by_cases c3 : k.length ≤ 0xFFFF
      · exact ⟨opPUSHDATA2, leEnc 2 k.length ++ k, by simp [c1, c2, c3], by decide⟩
      · have c4 : k.length ≤ 0xFFFFFFFF := by omega
        exact ⟨opPUSHDATA4, leEnc 4 k.length ++ k, by simp [c1, c2, c3, c4], by decide⟩

theorem encToks_cons (t : C13.Tok) (ts : List C13.Tok) (enc : Bytes) (h : C13.encToks (t :: ts) = some enc) :
    ∃ a r, t.enc = some a ∧ C13.encToks ts = some r ∧ enc = a ++ r := by
  simp only [C13.encToks, bind, Option.bind] at h
  cases ha : t.enc with
  | none => simp [ha] at h
  | some a =>
    cases hr : C13.encToks ts with
    | none => simp [ha, hr] at h
    | some r =>
      simp only [ha, hr, pure, Option.some.injEq] at h
      exact ⟨a, r, rfl, rfl, h.symm⟩

theorem tok_enc_nonempty (t : C13.Tok) (ht : t.ok) (a : Bytes) (h : t.enc = some a) : 1 ≤ a.length := by
  cases t with
  | op b => simp only [C13.Tok.enc, Option.some.injEq] at h; rw [← h]; simp
  | push p =>
    simp only [C13.Tok.ok] at ht
    simp only [C13.Tok.enc, Option.map_eq_some_iff] at h
    obtain ⟨pre, _, rfl⟩ := h
    simp only [List.length_append]
    omega

theorem encToks_length_ge (ts : List C13.Tok) (enc : Bytes) (h : C13.encToks ts = some enc)
    (hok : ∀ t ∈ ts, t.ok) : ts.length ≤ enc.length := by
  induction ts generalizing enc with
  | nil => simp
  | cons t ts ih =>
    obtain ⟨a, r, ha, hr, rfl⟩ := encToks_cons t ts enc h
    have h1 := tok_enc_nonempty t (hok t (by simp)) a ha
    have h2 := ih r hr (fun x hx => hok x (by simp [hx]))
    simp only [List.length_cons, List.length_append]
    omega

theorem encToks_of_encs (ts : List C13.Tok) (es : List Bytes) (h : ts.map C13.Tok.enc = es.map some) :
    C13.encToks ts = some es.flatten := by
  induction ts generalizing es with
  | nil =>
    cases es with
    | nil => rfl
    | cons e es => simp at h
  | cons t ts ih =>
    cases es with
    | nil => simp at h
    | cons e es =>
      simp only [List.map_cons, List.cons.injEq] at h
      simp only [C13.encToks, h.1, ih es h.2, bind, Option.bind, pure, List.flatten_cons]


end GoBT.C14
