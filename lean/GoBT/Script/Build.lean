/-
  txoutput.go: the scripts the output constructors build (CreateOpReturnOutput / AddOpReturnOutput /
  AddOpReturnPartsOutput, AddHashPuzzleOutput) and Tx.BytesWithClearedInputs.  Core Lean only.
-/
import GoBT.Script.Push
import GoBT.Tx.Wire
namespace GoBT.Script
open GoBT

/-- CreateOpReturnOutput: `OP_FALSE OP_RETURN` followed by EncodeParts of the data; `none` = ErrDataTooBig -/
def opReturnScript (parts : List Bytes) : Option Bytes :=
  (encodeParts parts).map fun p => 0x00 :: opRETURN :: p

/-- AddHashPuzzleOutput (the secret's HASH160 and the decoded key hash are the arguments):
    `OP_HASH160 <h> OP_EQUALVERIFY OP_DUP OP_HASH160 <pkh> OP_EQUALVERIFY OP_CHECKSIG` -/
def hashPuzzleScript (secretHash pkh : Bytes) : Option Bytes := do
  let a ← encodeParts [secretHash]
  let b ← encodeParts [pkh]
  pure ([0xa9] ++ a ++ [0x88, 0x76, 0xa9] ++ b ++ [0x88, 0xac])

end GoBT.Script

namespace GoBT
/-- Input.Bytes(true): the unlocking script replaced by a zero length -/
def serInputCleared (i : Input) : Bytes :=
  i.prevTxID.reverse ++ leEnc 4 i.vout ++ [0x00] ++ leEnc 4 i.sequence

/-- the inputs loop of toBytesHelper(index, lockingScript, false) with a non-nil locking script: at `index` the
    *whole* input is replaced by the length-prefixed script (as the code does), all others are cleared -/
def serInputsCleared (ls : Bytes) : Nat → Nat → List Input → Bytes
  | _, _, [] => []
  | k, idx, i :: is =>
    (if k = idx then varintEnc ls.length ++ ls else serInputCleared i) ++ serInputsCleared ls (k + 1) idx is

/-- Tx.BytesWithClearedInputs(index, lockingScript); `none` = a nil script, which makes it Tx.Bytes -/
def bytesWithClearedInputs (idx : Nat) (ls : Option Bytes) (tx : Tx) : Bytes :=
  match ls with
  | none => serialize false tx
  | some s =>
    leEnc 4 tx.version ++ varintEnc tx.inputs.length ++ serInputsCleared s 0 idx tx.inputs ++
    varintEnc tx.outputs.length ++ serOutputs tx.outputs ++ leEnc 4 tx.lockTime

/-- Tx.IsCoinbase -/
def isCoinbase (tx : Tx) : Bool :=
  match tx.inputs with
  | [i] => i.prevTxID == List.replicate 32 0 && (i.vout == 0xffffffff || i.sequence == 0xffffffff)
  | _ => false
end GoBT
