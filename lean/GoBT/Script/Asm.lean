/-
  bscript/script.go: ToASM / NewFromASM at the token level (the space joining/splitting is driver glue),
  running on the regenerated name tables GoBT.Gen.opCodeValues / opCodeStrings.  Core Lean only.
-/
import GoBT.Script.Push
import GoBT.Gen.Opcodes
namespace GoBT.Script
open GoBT

/-- Go map lookup `opCodeValues[b]` (missing key → "") -/
def opName (b : UInt8) : String :=
  match GoBT.Gen.opCodeValues.find? (fun p => p.1 == b.toNat) with
  | some p => p.2
  | none => ""

/-- Go map lookup `opCodeStrings[name]` -/
def opValue? (name : String) : Option Nat :=
  (GoBT.Gen.opCodeStrings.find? (fun p => p.1 == name)).map (·.2)

def isDataScript (s : Bytes) : Bool :=
  match s with
  | a :: b :: _ => a = opRETURN || (a = 0x00 && b = opRETURN)
  | _ => false

/-- one token of Script.ToASM -/
def asmToken (data : Bool) (p : Bytes) : String :=
  match p with
  | [b] => if data && b ≠ 0x6a then toString b.toNat else opName b
  | _ =>
    if data && p.length ≤ 4 then toString (leDec p) else hexEnc p

/-- Script.ToASM as a token list (`none`: the empty script, rendered as the empty string) -/
def toAsmTokens (s : Bytes) : Option (List String) :=
  if s.isEmpty then none else
  let (parts, ok) := decodeParts s
  let data := isDataScript s
  some (parts.map (asmToken data) ++ (if ok then [] else ["[error]"]))

/-- one section of NewFromASM appended to the script so far -/
def fromAsmToken (tok : String) : Option Bytes :=
  if tok = "" then some [] else      -- empty sections are skipped
  match opValue? tok with
  | some v =>
    -- AppendOpcodes refuses push opcodes and the error is discarded: nothing is appended
    if 1 ≤ v ∧ v ≤ 0x4e then some [] else some [UInt8.ofNat v]
  | none =>
    match hexDec tok with
    | none => none                                   -- ErrInvalidOpCode
    | some d => (pushPrefix d.length).map (· ++ d)

/-- NewFromASM over the sections of `strings.Split(str, " ")` -/
def fromAsmTokens : List String → Option Bytes
  | [] => some []
  | t :: ts => do
    let a ← fromAsmToken t
    let r ← fromAsmTokens ts
    pure (a ++ r)

end GoBT.Script
