/-
  The "never write into memory you were handed" discipline for package bt and package bscript, as a regenerated fact.

  GoBT/Gen/WritesLib.lean (extract/writes.go, go/ssa, rewritten on every run) lists every place in the two packages where
  bytes are written into a byte slice — element stores, `copy`, `append` (which writes into the spare capacity of its
  first argument), calls of functions of the two packages that write into a parameter or *through a pointer to a byte
  slice* (`(*Script).AppendPushData` …) — with the origin of the slice written to, the same for slices of other element
  types, and every call that hands a not provably fresh byte slice to a function outside the two packages.

  The obligation (per group of functions, so that a break is reported under the property whose code it is in) demands:

  * the target of every write is freshly allocated in the same function (`make`, a local array, `nil` grown by append, a
    `[]byte(string)` conversion, the result of a function all of whose returns are fresh), or a parameter of an
    unexported function (then every call site carries its own `callwrite:` row), or the row is a reviewed exception
    below (the `Append…` methods of `*Script`, whose contract is to extend the receiver; the transaction's own input and
    output lists);
  * every external callee that receives a shared buffer is on the reviewed read-only list;
  * every byte slice an exported function returns (`return#i` rows) is freshly allocated, by the function or by an
    allocator outside the packages — not a package-level table, not a parameter, not a field — or is one of three
    reviewed accessors.  `CalcInputPreimageLegacy` returning the package-level `defaultHex` (finding F-C03-01) was such
    a row.

  `Tx.Inscribe` before fix f38a724 had the rows `callwrite:bscript.Script.Append…#0` with origin
  `deref:field:bscript.InscriptionArgs.LockingScriptPrefix` (finding F-C20-04); a signature-hash routine that appends to
  `Input.PreviousTxScript`, a P2PKH constructor that appends to the caller's hash, `ToASM` appending to the script, a JSON
  decoder that copies into the destination's old buffer are rows of the same kind; so was the ordinals flows' reordering of the
  caller's UTXO slice before fix 7f200cd (finding F-C20-05: `append[*bt.UTXO]` with a `field:` origin) — package ord is in
  the table since then.
-/
import GoBT.Gen.WritesLib
namespace GoBT.Script.WriteReviewLib

/-- prefix test by characters (kernel-friendly) -/
def hasPrefix (p s : String) : Bool := p.toList.isPrefixOf s.toList

def freshOrigin (c : String) : Bool :=
  c == "make" || c == "alloc" || c == "nil" || c == "convert:string" || hasPrefix "freshcall:" c

/-- the function's own name (after the last '.', before any closure suffix) starts with a lower-case letter -/
def unexported (fn : String) : Bool :=
  match ((fn.toList.reverse.takeWhile (· != '.')).reverse).head? with
  | some c => c.isLower
  | none => false

/-- external callees reviewed as *reading* their byte-slice arguments only -/
def readOnlyCallees : List String := [
  "bytes.Equal", "bytes.Contains", "bytes.IndexByte", "bytes.HasPrefix",
  "bytes.Trim",                         -- returns a sub-slice: aliasing, no write
  "bytes.NewReader",                    -- wraps the slice in a reader
  "binary.littleEndian.Uint16", "binary.littleEndian.Uint32", "binary.littleEndian.Uint64",
  "hex.EncodeToString", "crypto.Hash160", "crypto.Sha256d", "crypto.Sha256", "sha256.Sum256",
  "json.Unmarshal",                     -- reads its input text
  "base58.Encode",
  "bytes.Buffer.Write", "(io.Writer).Write", "(hash.Hash).Write",   -- Write copies from / absorbs its argument (io.Writer contract)
  "bytes.Compare", "bytes.HasSuffix", "bytes.TrimSpace", "bytes.TrimLeft", "bytes.TrimRight", "bytes.Index",
  "sha1.Sum", "big.Int.SetBytes", "bec.ParsePubKey", "bec.ParseDERSignature"
]

/-- reviewed exceptions: (function, kind, origin, why it is within the function's contract) -/
def reviewed : List (String × String × List String × String) := [
  ("bscript.Script.AppendOpcodes", "append", ["deref:param:s"], "documented to extend the receiver script"),
  ("bscript.Script.AppendPushData", "append", ["deref:param:s"], "documented to extend the receiver script"),
  ("bscript.Script.AppendPushDataArray", "append", ["deref:param:s"], "documented to extend the receiver script"),
  ("bscript.Script.AppendPushDataHexString", "callwrite:bscript.Script.AppendPushData#0", ["param:s"], "extends the receiver"),
  ("bscript.Script.AppendPushDataString", "callwrite:bscript.Script.AppendPushData#0", ["param:s"], "extends the receiver"),
  ("bscript.Script.AppendPushDataStrings", "callwrite:bscript.Script.AppendPushDataArray#0", ["param:s"], "extends the receiver"),
  ("bt.Tx.AddOutput", "append[*bt.Output]", ["field:bt.Tx.Outputs"], "the transaction's own output list"),
  ("bt.Tx.addInput", "append[*bt.Input]", ["field:bt.Tx.Inputs"], "the transaction's own input list"),
  ("bt.Tx.ReadFrom", "append[*bt.Input]", ["field:bt.Tx.Inputs"], "the receiver being filled"),
  ("bt.Tx.ReadFrom", "append[*bt.Output]", ["field:bt.Tx.Outputs"], "the receiver being filled"),
  ("bt.Txs.ReadFrom", "append[*bt.Tx]", ["deref:param:tt"], "the receiver list being filled"),
  ("bt.nodeTxsWrapper.UnmarshalJSON", "append[*bt.Tx]", ["deref:param:nn"], "the destination list being filled"),
  ("bt.nodeUTXOsWrapper.UnmarshalJSON", "append[*bt.UTXO]", ["deref:param:nn"], "the destination list being filled"),
  ("bt.nodeTxsWrapper.UnmarshalJSON", "extcall:json.Unmarshal", ["elem:local:jj"], "json.RawMessage elements of the decoded list, read only"),
  ("bt.nodeUTXOsWrapper.UnmarshalJSON", "extcall:json.Unmarshal", ["elem:local:jj"], "as above"),
  ("ord.AcceptOrdinalSaleListing", "append[*bt.Input]", ["field:bt.Tx.Inputs"], "the input list of the transaction the flow is building"),
  ("ord.AcceptOrdinalSaleListing2Dummies", "append[*bt.Input]", ["field:bt.Tx.Inputs"], "as above"),
  ("ord.MakeBidToBuy1SatOrdinal", "append[*bt.Input]", ["field:bt.Tx.Inputs"], "as above"),
  ("ord.MakeBidToBuy1SatOrdinal2Dummies", "append[*bt.Input]", ["field:bt.Tx.Inputs"], "as above"),
  ("bt.Tx.FillAllInputs", "extcall:(bt.UnlockerGetter).Unlocker", ["field:bt.Input.PreviousTxScript"],
   "the caller's own getter receives the script it is asked to unlock")
]

/-- results of functions outside the two packages that are newly allocated buffers -/
def externalAllocators : List String := [
  "call:json.Marshal#0", "call:crypto.Sha256d", "call:crypto.Sha256", "call:crypto.Hash160", "call:crypto.Ripemd160",
  "call:hex.DecodeString#0", "call:base58.Decode", "call:bytes.Buffer.Bytes"
]

/-- reviewed `return#i` rows: exported functions that hand out memory they did not allocate, by documented contract -/
def reviewedReturns : List (String × String × List String × String) := [
  ("bt.Input.PreviousTxID", "return#0", ["field:bt.Input.previousTxID"], "accessor of the input's own txid"),
  ("bscript.Script.PublicKeyHash", "return#0", ["elem:call:bscript.DecodeParts#0"],
   "a window into the script's own bytes (DecodeParts returns sub-slices): reading accessor"),
  ("bt.Tx.CalcInputSignatureHash", "return#0", ["call:dynamic#0"],
   "the preimage routine's result in the SINGLE-bug case: CalcInputPreimage / CalcInputPreimageLegacy have their own rows")
]

def isReviewed (r : String × String × List String) : Bool :=
  (reviewed ++ reviewedReturns).any fun e => e.1 == r.1 && e.2.1 == r.2.1 && e.2.2.1 == r.2.2

def rowOk (r : String × String × List String) : Bool :=
  isReviewed r ||
  (if hasPrefix "extcall:" r.2.1 then readOnlyCallees.contains (String.ofList (r.2.1.toList.drop 8))
   else if hasPrefix "return#" r.2.1 then
     -- an exported function hands out only memory it allocated (or an allocator outside the packages did)
     r.2.2.all fun c => freshOrigin c || externalAllocators.contains c
   else r.2.2.all fun c => freshOrigin c || (hasPrefix "param:" c && unexported r.1))

/-- which property's code a function belongs to (first matching prefix; the serialisation core is the default) -/
def groups : List (String × List String) := [
  ("C02", ["bt.Tx.CalcInputPreimage", "bt.Tx.CalcInputSignatureHash", "bt.Tx.OutputsHash", "bt.Tx.PreviousOutHash",
           "bt.Tx.SequenceHash", "bt.Output.BytesForSigHash"]),
  ("C20", ["bt.Tx.Inscribe", "bt.Tx.InscribeSpecificOrdinal", "bscript.Script.ParseInscription", "bscript.Script.IsInscribed", "ord."]),
  ("C15", ["bscript.NewP2PKH", "bscript.NewAddress", "bscript.a25.", "bscript.checksum", "bscript.Base58",
           "bscript.addressToPubKeyHashStr", "bscript.ValidateAddress"]),
  ("C17", ["bscript.createBIP276", "bscript.EncodeBIP276", "bscript.DecodeBIP276"]),
  ("C16", ["bt.Input.MarshalJSON", "bt.Input.UnmarshalJSON", "bt.Output.UnmarshalJSON", "bt.Output.MarshalJSON",
           "bt.Tx.UnmarshalJSON", "bt.Tx.MarshalJSON", "bt.UTXO.", "bt.node", "bt.FeeQuote.UnmarshalJSON"]),
  ("C13", ["bscript."])
]

def groupOf (fn : String) : String :=
  match groups.find? (fun g => g.2.any fun p => hasPrefix p fn) with
  | some g => g.1
  | none => "C01"

/-- `CalcInputPreimageLegacy` starts with the C02 prefix `bt.Tx.CalcInputPreimage` but is C03's code -/
def groupOf' (fn : String) : String :=
  if hasPrefix "bt.Tx.CalcInputPreimageLegacy" fn then "C03" else groupOf fn

def rowsOf (g : String) : List (String × String × List String) :=
  GoBT.Gen.WritesLib.sites.filter fun r => groupOf' r.1 == g

/-- the rows of a group that do not satisfy the discipline (empty on the unchanged tree; printed as the witness when the
    obligation breaks) -/
def offendingFor (g : String) : List (String × String × List String) := (rowsOf g).filter fun r => !rowOk r

/-- the discipline for one group, which must have at least one row (non-vacuity) -/
def writesOkFor (g : String) : Bool := (rowsOf g).all rowOk && !(rowsOf g).isEmpty

end GoBT.Script.WriteReviewLib
