/-
  secp256k1 over `Nat` arithmetic: public-key parsing, ECDSA verification, and
  (test-only) signing.  Executable and total, core Lean only.

  Mirrors github.com/libsv/go-bk@v0.1.6/bec (pubkey.go, btcec.go, signature.go)
  together with Go 1.23 crypto/ecdsa `verifyLegacy`, which is the code path
  `bec.Signature.Verify` ends up in for a non-NIST curve.

  Every recursion is structural on a fuel / bit counter.
-/
import GoBT.Basic.Bytes

namespace GoBT.Crypto.Secp256k1

/-- field prime `2^256 - 2^32 - 977`. -/
def p : Nat := 0xFFFFFFFFFFFFFFFFFFFFFFFFFFFFFFFFFFFFFFFFFFFFFFFFFFFFFFFEFFFFFC2F

/-- group order. -/
def n : Nat := 0xFFFFFFFFFFFFFFFFFFFFFFFFFFFFFFFEBAAEDCE6AF48A03BBFD25E8CD0364141

/-- `S256().halfOrder = N >> 1`. -/
def halfOrder : Nat := n / 2

/-- affine point; the point at infinity is not representable (functions that can
    produce it return `Option Point`). -/
structure Point where
  x : Nat
  y : Nat
deriving Repr, BEq, DecidableEq

def G : Point :=
  { x := 0x79BE667EF9DCBBAC55A06295CE870B07029BFCDB2DCE28D959F2815B16F81798
    y := 0x483ADA7726A3C4655DA4FBFC0E1108A8FD17B448A68554199C47D08FFB10D4B8 }

/-! ### modular arithmetic -/

/-- `powModAux fuel b e m acc = acc * b^e mod m` provided `e < 2^fuel`
    (right-to-left square and multiply, structural on `fuel`). -/
def powModAux : Nat → Nat → Nat → Nat → Nat → Nat
  | 0, _, _, _, acc => acc
  | fuel + 1, b, e, m, acc =>
    if e == 0 then acc
    else
      let acc' := if e % 2 == 1 then acc * b % m else acc
      powModAux fuel (b * b % m) (e / 2) m acc'

/-- `b ^ e mod m`. -/
def powMod (b e m : Nat) : Nat := powModAux (e.log2 + 1) (b % m) e m (1 % m)

/-- inverse in the prime field `Z/m` by Fermat (`0 ↦ 0`, like go-bk's
    `fieldVal.Inverse` and, for the inputs that reach it, `big.Int.ModInverse`). -/
def invMod (a m : Nat) : Nat := powMod a (m - 2) m

@[inline] def addP (a b : Nat) : Nat := (a + b) % p
@[inline] def subP (a b : Nat) : Nat := (a + (p - b % p)) % p
@[inline] def mulP (a b : Nat) : Nat := a * b % p
@[inline] def sqrP (a : Nat) : Nat := a * a % p

/-- `x³ + 7 mod p`. -/
def curveRhs (x : Nat) : Nat := (x * x % p * x + 7) % p

/-- `KoblitzCurve.IsOnCurve`: the field arithmetic reduces its operands, so this
    holds for unreduced coordinates too. -/
def isOnCurve (x y : Nat) : Bool := y * y % p == curveRhs x

/-- `y² = x³ + 7 (mod p)` with both coordinates reduced. -/
def onCurve (P : Point) : Bool := decide (P.x < p) && decide (P.y < p) && isOnCurve P.x P.y

/-! ### Jacobian arithmetic (a = 0); infinity is `z = 0` -/

structure JPoint where
  x : Nat
  y : Nat
  z : Nat
deriving Repr

def JPoint.inf : JPoint := ⟨1, 1, 0⟩

def JPoint.isInf (P : JPoint) : Bool := P.z == 0

/-- coordinates are reduced mod `p` (go-bk's field values reduce lazily, with the
    same effect). -/
def JPoint.ofAffine (P : Point) : JPoint := ⟨P.x % p, P.y % p, 1⟩

/-- point doubling, "dbl-2009-l". -/
def JPoint.double (P : JPoint) : JPoint :=
  if P.z == 0 || P.y == 0 then JPoint.inf
  else
    let a := sqrP P.x
    let b := sqrP P.y
    let c := sqrP b
    let d := mulP 2 (subP (subP (sqrP (addP P.x b)) a) c)
    let e := mulP 3 a
    let f := sqrP e
    let x3 := subP f (mulP 2 d)
    let y3 := subP (mulP e (subP d x3)) (mulP 8 c)
    let z3 := mulP 2 (mulP P.y P.z)
    ⟨x3, y3, z3⟩

/-- general Jacobian addition. -/
def JPoint.add (P Q : JPoint) : JPoint :=
  if P.z == 0 then Q
  else if Q.z == 0 then P
  else
    let z1z1 := sqrP P.z
    let z2z2 := sqrP Q.z
    let u1 := mulP P.x z2z2
    let u2 := mulP Q.x z1z1
    let s1 := mulP P.y (mulP Q.z z2z2)
    let s2 := mulP Q.y (mulP P.z z1z1)
    if u1 == u2 then
      if s1 == s2 then P.double else JPoint.inf
    else
      let h := subP u2 u1
      let r := subP s2 s1
      let hh := sqrP h
      let hhh := mulP h hh
      let v := mulP u1 hh
      let x3 := subP (subP (sqrP r) hhh) (mulP 2 v)
      let y3 := subP (mulP r (subP v x3)) (mulP s1 hhh)
      let z3 := mulP h (mulP P.z Q.z)
      ⟨x3, y3, z3⟩

/-- mixed addition `P + (qx, qy, 1)`; `qx, qy` must be reduced. -/
def JPoint.addAffine (P : JPoint) (qx qy : Nat) : JPoint :=
  if P.z == 0 then ⟨qx, qy, 1⟩
  else
    let z1z1 := sqrP P.z
    let u2 := mulP qx z1z1
    let s2 := mulP qy (mulP P.z z1z1)
    if P.x == u2 then
      if P.y == s2 then P.double else JPoint.inf
    else
      let h := subP u2 P.x
      let r := subP s2 P.y
      let hh := sqrP h
      let hhh := mulP h hh
      let v := mulP P.x hh
      let x3 := subP (subP (sqrP r) hhh) (mulP 2 v)
      let y3 := subP (mulP r (subP v x3)) (mulP P.y hhh)
      let z3 := mulP h P.z
      ⟨x3, y3, z3⟩

/-- back to affine; `none` for the point at infinity. -/
def JPoint.toAffine? (P : JPoint) : Option Point :=
  if P.z == 0 then none
  else
    let zi := invMod P.z p
    let zi2 := sqrP zi
    some ⟨mulP P.x zi2, mulP P.y (mulP zi2 zi)⟩

/-- left-to-right double-and-add over the low `bits` bits of `k`
    (structural on `bits`); `qx, qy` reduced affine coordinates. -/
def scalarMulAux (qx qy k : Nat) : Nat → JPoint → JPoint
  | 0, acc => acc
  | i + 1, acc =>
    let acc := acc.double
    let acc := if k.testBit i then acc.addAffine qx qy else acc
    scalarMulAux qx qy k i acc

/-- `k · Q` for `k < 2^256` (callers reduce `k` mod `n` first). -/
def scalarMulJ (k : Nat) (Q : Point) : JPoint :=
  scalarMulAux (Q.x % p) (Q.y % p) k 256 JPoint.inf

/-- Shamir's trick: `u1·G + u2·Q` in one pass over the low `bits` bits.
    `gq` is `G + Q` in affine form, `none` when `G + Q = ∞` (then adding it is a
    no-op).  All affine inputs reduced. -/
def doubleScalarMulAux (gx gy qx qy : Nat) (gq : Option Point) (u1 u2 : Nat) : Nat → JPoint → JPoint
  | 0, acc => acc
  | i + 1, acc =>
    let acc := acc.double
    let b1 := u1.testBit i
    let b2 := u2.testBit i
    let acc :=
      if b1 && b2 then
        match gq with
        | some S => acc.addAffine S.x S.y
        | none => acc
      else if b1 then acc.addAffine gx gy
      else if b2 then acc.addAffine qx qy
      else acc
    doubleScalarMulAux gx gy qx qy gq u1 u2 i acc

/-- `u1·G + u2·Q` for `u1, u2 < 2^256`. -/
def doubleScalarMulJ (u1 u2 : Nat) (Q : Point) : JPoint :=
  let qx := Q.x % p
  let qy := Q.y % p
  let gq := ((JPoint.ofAffine G).addAffine qx qy).toAffine?
  doubleScalarMulAux G.x G.y qx qy gq u1 u2 256 JPoint.inf

/-- `k · Q`, `none` = infinity. -/
def scalarMul (k : Nat) (Q : Point) : Option Point :=
  (scalarMulJ (k % n) Q).toAffine?

/-- `k · G` (public key of private key `k`); `none` iff `k ≡ 0 (mod n)`. -/
def scalarMulG (k : Nat) : Option Point := scalarMul k G

/-! ### big-endian helpers -/

/-- `big.Int.SetBytes`. -/
def beNat (b : Bytes) : Nat := b.foldl (fun acc x => acc * 256 + x.toNat) 0

/-- `k`-byte big-endian encoding (`paddedAppend` / `FillBytes`), truncating. -/
def beBytes (k n : Nat) : Bytes := (leEnc k n).reverse

/-! ### public keys (bec/pubkey.go) -/

/-- `decompressPoint`: `y = (x³+7)^((p+1)/4)`, negated if its parity is not
    `ybit`, rejected unless `y² = x³+7`.  As in go-bk, `x` is *not* required to
    be below `p` (the field arithmetic reduces it). -/
def decompressPoint (x : Nat) (ybit : Bool) : Option Nat :=
  let x3 := curveRhs x
  let y := powMod x3 ((p + 1) / 4) p
  let y := if ybit != (y % 2 == 1) then (p - y) % p else y
  -- Check that y is a square root of x^3 + B.
  if y * y % p != x3 then none
  -- Verify that y-coord has expected parity.
  else if ybit != (y % 2 == 1) then none
  else some y

/-- `bec.ParsePubKey`.  Faithful to go-bk, including:
    * a 65-byte key with prefix 0x05 is accepted as uncompressed (the low bit
      is masked off before the format check and only used for hybrid keys);
    * a 33-byte compressed key whose X is in `[p, 2^256)` is accepted when
      `(X mod p)³+7` is a square, and the returned `x` is the *unreduced* X. -/
def parsePubKey (b : Bytes) : Option Point :=
  match b with
  | [] => none
  | b0 :: _ =>
    let ybit := (b0 &&& 0x01) == 0x01
    let format := b0 &&& 0xFE
    if b.length == 65 then
      if format != 0x04 && format != 0x06 then none
      else
        let x := beNat ((b.drop 1).take 32)
        let y := beNat (b.drop 33)
        -- hybrid keys have extra information, make use of it.
        if format == 0x06 && ybit != (y % 2 == 1) then none
        else if x ≥ p then none
        else if y ≥ p then none
        else if !isOnCurve x y then none
        else some ⟨x, y⟩
    else if b.length == 33 then
      if format != 0x02 then none
      else
        let x := beNat (b.drop 1)
        match decompressPoint x ybit with
        | none => none
        | some y => some ⟨x, y⟩
    else none

/-- `SerialiseCompressed` (33 bytes). -/
def serializeCompressed (P : Point) : Bytes :=
  (if P.y % 2 == 1 then 0x03 else 0x02) :: beBytes 32 P.x

/-- `SerialiseUncompressed` (65 bytes). -/
def serializeUncompressed (P : Point) : Bytes :=
  0x04 :: (beBytes 32 P.x ++ beBytes 32 P.y)

/-- `SerialiseHybrid` (65 bytes). -/
def serializeHybrid (P : Point) : Bytes :=
  (if P.y % 2 == 1 then 0x07 else 0x06) :: (beBytes 32 P.x ++ beBytes 32 P.y)

/-! ### ECDSA -/

/-- crypto/ecdsa `hashToInt` for a 256-bit order: the leftmost 32 bytes, big
    endian (shorter hashes are used as they are; no shift is ever needed). -/
def hashToInt (hash : Bytes) : Nat := beNat (hash.take 32)

/-- `bec.Signature.Verify` = crypto/ecdsa `verifyLegacy`.  `pub` is expected to
    satisfy `isOnCurve` (anything `parsePubKey` returns does). -/
def ecdsaVerify (pub : Point) (hash : Bytes) (r s : Nat) : Bool :=
  if r == 0 || s == 0 then false
  else if r ≥ n || s ≥ n then false
  else
    let e := hashToInt hash
    let w := invMod s n
    let u1 := e * w % n
    let u2 := r * w % n
    -- X = u1·G + u2·pub  (c.ScalarBaseMult, c.ScalarMult, c.Add)
    let X := doubleScalarMulJ u1 u2 pub
    match X.toAffine? with
    | none => false
    | some A => A.x % n == r

/-- reference version of `ecdsaVerify` computing `u1·G` and `u2·pub` separately
    (exactly the shape of `verifyLegacy`); used to cross-check the Shamir variant. -/
def ecdsaVerifySlow (pub : Point) (hash : Bytes) (r s : Nat) : Bool :=
  if r == 0 || s == 0 then false
  else if r ≥ n || s ≥ n then false
  else
    let e := hashToInt hash
    let w := invMod s n
    let u1 := e * w % n
    let u2 := r * w % n
    let X := (scalarMulJ u1 G).add (scalarMulJ u2 pub)
    match X.toAffine? with
    | none => false
    | some A => A.x % n == r

/-- ECDSA signature with an explicit nonce `k` and low-S normalisation (the
    `signRFC6979` arithmetic without the nonce derivation).  Test use only. -/
def ecdsaSignWithNonce (priv k : Nat) (hash : Bytes) : Option (Nat × Nat) :=
  let k := k % n
  if k == 0 then none
  else
    match scalarMulG k with
    | none => none
    | some R =>
      let r := R.x % n
      if r == 0 then none
      else
        let e := hashToInt hash
        let s := (priv * r + e) % n * invMod k n % n
        let s := if s > halfOrder then n - s else s
        if s == 0 then none else some (r, s)

end GoBT.Crypto.Secp256k1

namespace GoBT.Crypto
/- the API proper is also reachable as `GoBT.Crypto.parsePubKey` etc.; the short
   constant names `p`, `n`, `G` stay inside `GoBT.Crypto.Secp256k1`. -/
export Secp256k1 (Point onCurve parsePubKey ecdsaVerify ecdsaVerifySlow scalarMulG scalarMul
  serializeCompressed serializeUncompressed serializeHybrid ecdsaSignWithNonce hashToInt)
end GoBT.Crypto
