/-
  ECDSA signature (de)serialisation, mirroring
  github.com/libsv/go-bk@v0.1.6/bec/signature.go line by line:
  `parseSig(sigStr, curve, der)` behind `ParseDERSignature` (der = true) and
  `ParseSignature` (der = false), and `Signature.Serialise`.

  Observations about that Go code which this model reproduces on purpose:
  * the ONLY difference between the two modes is the `canonicalPadding` check on
    R and S (negative / excessively padded); in particular
  * both modes ignore any bytes after the `siglen+2` bytes announced by the
    header (the slice is trimmed, there is no `siglen+2 == len` check);
  * `siglen+2` is computed in `byte` arithmetic, so 0xfe/0xff wrap to 0/1 and are
    rejected as "bad length";
  * neither mode enforces low S.
-/
import GoBT.Basic.Bytes
import GoBT.Crypto.Secp256k1

namespace GoBT.Crypto

/-- `MinSigLen`: 0x30 + <1-byte> + 0x02 + 0x01 + <byte> + 0x2 + 0x01 + <byte>. -/
def minSigLen : Nat := 8

inductive PaddingError where
  | negativeValue          -- errNegativeValue
  | excessivelyPaddedValue -- errExcessivelyPaddedValue
deriving DecidableEq, Repr

/-- `canonicalPadding` (callers pass a non-empty slice). -/
def canonicalPadding (b : Bytes) : Option PaddingError :=
  if b.getD 0 0 &&& 0x80 == 0x80 then some .negativeValue
  else if b.length > 1 && b.getD 0 0 == 0x00 && b.getD 1 0 &&& 0x80 != 0x80 then
    some .excessivelyPaddedValue
  else none

/-- `parseSig`.  `index` is threaded exactly as in the Go source. -/
def parseSig (sigStr : Bytes) (der : Bool) : Option (Nat × Nat) :=
  if sigStr.length < minSigLen then none            -- "too short"
  else
  -- 0x30
  let index := 0
  if sigStr.getD index 0 != 0x30 then none          -- "no header magic"
  else
  let index := index + 1
  -- length of remaining message
  let siglen : UInt8 := sigStr.getD index 0
  let index := index + 1
  -- `int(siglen+2)`: the addition is done on a `byte` and wraps.
  let total := (siglen + 2).toNat
  if total > sigStr.length || total < minSigLen then none   -- "bad length"
  else
  -- trim the slice we're working on so we only look at what matters.
  let sigStr := sigStr.take total
  -- 0x02
  if sigStr.getD index 0 != 0x02 then none          -- "no 1st int marker"
  else
  let index := index + 1
  -- Length of signature R.
  let rLen := (sigStr.getD index 0).toNat
  let index := index + 1
  -- `rLen <= 0 || rLen > len(sigStr)-index-3` on Go ints
  if rLen == 0 || rLen + index + 3 > sigStr.length then none  -- "bogus R length"
  else
  -- Then R itself.
  let rBytes := (sigStr.drop index).take rLen
  let err := canonicalPadding rBytes
  if der && err == some .negativeValue then none            -- "R is negative"
  else if der && err == some .excessivelyPaddedValue then none  -- "R is excessively padded"
  else
  let r := Secp256k1.beNat rBytes
  let index := index + rLen
  -- 0x02. length already checked in previous if.
  if sigStr.getD index 0 != 0x02 then none          -- "no 2nd int marker"
  else
  let index := index + 1
  -- Length of signature S.
  let sLen := (sigStr.getD index 0).toNat
  let index := index + 1
  -- S should be the rest of the string.
  if sLen == 0 || sLen + index > sigStr.length then none    -- "bogus S length"
  else
  -- Then S itself.
  let sBytes := (sigStr.drop index).take sLen
  let err := canonicalPadding sBytes
  if der && err == some .negativeValue then none            -- "S is negative"
  else if der && err == some .excessivelyPaddedValue then none  -- "S is excessively padded"
  else
  let s := Secp256k1.beNat sBytes
  let index := index + sLen
  -- sanity check length parsing
  if index != sigStr.length then none               -- "bad final length"
  else
  if r == 0 then none                               -- "R isn't 1 or more"
  else if s == 0 then none                          -- "S isn't 1 or more"
  else if r ≥ Secp256k1.n then none                 -- "R is >= curve.N"
  else if s ≥ Secp256k1.n then none                 -- "S is >= curve.N"
  else some (r, s)

/-- `bec.ParseDERSignature`. -/
def parseDERStrict (sig : Bytes) : Option (Nat × Nat) := parseSig sig true

/-- `bec.ParseSignature` (the "BER" / lax mode). -/
def parseDERLax (sig : Bytes) : Option (Nat × Nat) := parseSig sig false

/-- `big.Int.Bytes`: minimal big-endian bytes, `[]` for 0. -/
def natBytesAux : Nat → Nat → Bytes → Bytes
  | 0, _, acc => acc
  | fuel + 1, v, acc =>
    if v == 0 then acc else natBytesAux fuel (v / 256) (UInt8.ofNat (v % 256) :: acc)

def natBytes (v : Nat) : Bytes := natBytesAux (v.log2 / 8 + 1) v []

/-- `canonicalizeInt`. -/
def canonicalizeInt (v : Nat) : Bytes :=
  let b := natBytes v
  let b := if b.length == 0 then [0x00] else b
  if b.getD 0 0 &&& 0x80 != 0 then 0x00 :: b else b

/-- `Signature.Serialise`: 0x30 <length> 0x02 <length r> r 0x02 <length s> s,
    with the low-S malleability breaker. -/
def serializeDER (r s : Nat) : Bytes :=
  let sigS := if s > Secp256k1.halfOrder then Secp256k1.n - s else s
  let rb := canonicalizeInt r
  let sb := canonicalizeInt sigS
  let length := 6 + rb.length + sb.length
  [0x30, UInt8.ofNat (length - 2), 0x02, UInt8.ofNat rb.length] ++ rb ++
  [0x02, UInt8.ofNat sb.length] ++ sb

end GoBT.Crypto
