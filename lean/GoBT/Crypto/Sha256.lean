/-
  SHA-256 (FIPS 180-4), executable and total.  Core Lean only.

  Boundary type is `Bytes = List UInt8`; internally the padded message is an
  `Array UInt8`, the message schedule an `Array UInt32`, and the compression
  function is plain wrapping `UInt32` arithmetic inside `Id.run` `for` loops
  (which are total).
-/
import GoBT.Basic.Bytes

namespace GoBT.Crypto

@[inline] def rotr32 (x : UInt32) (k : UInt32) : UInt32 :=
  (x >>> k) ||| (x <<< (32 - k))

@[inline] def rotl32 (x : UInt32) (k : UInt32) : UInt32 :=
  (x <<< k) ||| (x >>> (32 - k))

/-- big-endian 4 bytes of a word. -/
def be32 (w : UInt32) : Bytes :=
  [(w >>> 24).toUInt8, (w >>> 16).toUInt8, (w >>> 8).toUInt8, w.toUInt8]

/-- little-endian 4 bytes of a word. -/
def le32 (w : UInt32) : Bytes :=
  [w.toUInt8, (w >>> 8).toUInt8, (w >>> 16).toUInt8, (w >>> 24).toUInt8]

/-- big-endian word at byte offset `j`. -/
@[inline] def getBE32 (a : Array UInt8) (j : Nat) : UInt32 :=
  (a[j]!.toUInt32 <<< 24) ||| (a[j+1]!.toUInt32 <<< 16) |||
  (a[j+2]!.toUInt32 <<< 8) ||| a[j+3]!.toUInt32

/-- little-endian word at byte offset `j`. -/
@[inline] def getLE32 (a : Array UInt8) (j : Nat) : UInt32 :=
  a[j]!.toUInt32 ||| (a[j+1]!.toUInt32 <<< 8) |||
  (a[j+2]!.toUInt32 <<< 16) ||| (a[j+3]!.toUInt32 <<< 24)

/-- Merkle–Damgård padding shared by SHA-1 / SHA-256 / RIPEMD-160:
    `msg ‖ 0x80 ‖ 0…0 ‖ len64`, total length a multiple of 64.  The 64-bit bit
    length is big endian when `bigEndian`, else little endian. -/
def mdPad (msg : Bytes) (bigEndian : Bool) : Array UInt8 := Id.run do
  let len := msg.length
  let mut a : Array UInt8 := msg.toArray
  a := a.push 0x80
  let zeros := (119 - len % 64) % 64   -- (len + 1 + zeros) % 64 = 56
  for _ in [0:zeros] do
    a := a.push 0
  let bits := (8 * len) % 2 ^ 64
  let lenBytes := leEnc 8 bits
  for b in (if bigEndian then lenBytes.reverse else lenBytes) do
    a := a.push b
  return a

def sha256K : Array UInt32 := #[
  0x428a2f98, 0x71374491, 0xb5c0fbcf, 0xe9b5dba5, 0x3956c25b, 0x59f111f1, 0x923f82a4, 0xab1c5ed5,
  0xd807aa98, 0x12835b01, 0x243185be, 0x550c7dc3, 0x72be5d74, 0x80deb1fe, 0x9bdc06a7, 0xc19bf174,
  0xe49b69c1, 0xefbe4786, 0x0fc19dc6, 0x240ca1cc, 0x2de92c6f, 0x4a7484aa, 0x5cb0a9dc, 0x76f988da,
  0x983e5152, 0xa831c66d, 0xb00327c8, 0xbf597fc7, 0xc6e00bf3, 0xd5a79147, 0x06ca6351, 0x14292967,
  0x27b70a85, 0x2e1b2138, 0x4d2c6dfc, 0x53380d13, 0x650a7354, 0x766a0abb, 0x81c2c92e, 0x92722c85,
  0xa2bfe8a1, 0xa81a664b, 0xc24b8b70, 0xc76c51a3, 0xd192e819, 0xd6990624, 0xf40e3585, 0x106aa070,
  0x19a4c116, 0x1e376c08, 0x2748774c, 0x34b0bcb5, 0x391c0cb3, 0x4ed8aa4a, 0x5b9cca4f, 0x682e6ff3,
  0x748f82ee, 0x78a5636f, 0x84c87814, 0x8cc70208, 0x90befffa, 0xa4506ceb, 0xbef9a3f7, 0xc67178f2]

structure Sha256State where
  a : UInt32
  b : UInt32
  c : UInt32
  d : UInt32
  e : UInt32
  f : UInt32
  g : UInt32
  h : UInt32

def sha256Init : Sha256State :=
  ⟨0x6a09e667, 0xbb67ae85, 0x3c6ef372, 0xa54ff53a, 0x510e527f, 0x9b05688c, 0x1f83d9ab, 0x5be0cd19⟩

/-- one 64-byte block starting at byte offset `off` of `m`. -/
def sha256Block (st : Sha256State) (m : Array UInt8) (off : Nat) : Sha256State := Id.run do
  let mut w : Array UInt32 := Array.mkEmpty 64
  for i in [0:16] do
    w := w.push (getBE32 m (off + 4 * i))
  for i in [16:64] do
    let w15 := w[i - 15]!
    let w2 := w[i - 2]!
    let s0 := rotr32 w15 7 ^^^ rotr32 w15 18 ^^^ (w15 >>> 3)
    let s1 := rotr32 w2 17 ^^^ rotr32 w2 19 ^^^ (w2 >>> 10)
    w := w.push (w[i - 16]! + s0 + w[i - 7]! + s1)
  let mut a := st.a
  let mut b := st.b
  let mut c := st.c
  let mut d := st.d
  let mut e := st.e
  let mut f := st.f
  let mut g := st.g
  let mut h := st.h
  for i in [0:64] do
    let s1 := rotr32 e 6 ^^^ rotr32 e 11 ^^^ rotr32 e 25
    let ch := (e &&& f) ^^^ (~~~e &&& g)
    let t1 := h + s1 + ch + sha256K[i]! + w[i]!
    let s0 := rotr32 a 2 ^^^ rotr32 a 13 ^^^ rotr32 a 22
    let maj := (a &&& b) ^^^ (a &&& c) ^^^ (b &&& c)
    let t2 := s0 + maj
    h := g
    g := f
    f := e
    e := d + t1
    d := c
    c := b
    b := a
    a := t1 + t2
  return ⟨st.a + a, st.b + b, st.c + c, st.d + d, st.e + e, st.f + f, st.g + g, st.h + h⟩

/-- SHA-256 digest (32 bytes). -/
def sha256 (msg : Bytes) : Bytes := Id.run do
  let m := mdPad msg true
  let mut st := sha256Init
  for k in [0:m.size / 64] do
    st := sha256Block st m (64 * k)
  return be32 st.a ++ be32 st.b ++ be32 st.c ++ be32 st.d ++
         be32 st.e ++ be32 st.f ++ be32 st.g ++ be32 st.h

/-- double SHA-256 (Bitcoin txid / sighash). -/
def sha256d (b : Bytes) : Bytes := sha256 (sha256 b)

end GoBT.Crypto
