/-
  SHA-1 (FIPS 180-4), executable and total.  Core Lean only.
  (Needed for OP_SHA1.)  Same conventions as `Sha256.lean`.
-/
import GoBT.Crypto.Sha256

namespace GoBT.Crypto

structure Sha1State where
  a : UInt32
  b : UInt32
  c : UInt32
  d : UInt32
  e : UInt32

def sha1Init : Sha1State :=
  ⟨0x67452301, 0xefcdab89, 0x98badcfe, 0x10325476, 0xc3d2e1f0⟩

/-- one 64-byte block starting at byte offset `off` of `m`. -/
def sha1Block (st : Sha1State) (m : Array UInt8) (off : Nat) : Sha1State := Id.run do
  let mut w : Array UInt32 := Array.mkEmpty 80
  for i in [0:16] do
    w := w.push (getBE32 m (off + 4 * i))
  for i in [16:80] do
    w := w.push (rotl32 (w[i - 3]! ^^^ w[i - 8]! ^^^ w[i - 14]! ^^^ w[i - 16]!) 1)
  let mut a := st.a
  let mut b := st.b
  let mut c := st.c
  let mut d := st.d
  let mut e := st.e
  for i in [0:80] do
    let (f, k) : UInt32 × UInt32 :=
      if i < 20 then ((b &&& c) ||| (~~~b &&& d), 0x5a827999)
      else if i < 40 then (b ^^^ c ^^^ d, 0x6ed9eba1)
      else if i < 60 then ((b &&& c) ||| (b &&& d) ||| (c &&& d), 0x8f1bbcdc)
      else (b ^^^ c ^^^ d, 0xca62c1d6)
    let t := rotl32 a 5 + f + e + k + w[i]!
    e := d
    d := c
    c := rotl32 b 30
    b := a
    a := t
  return ⟨st.a + a, st.b + b, st.c + c, st.d + d, st.e + e⟩

/-- SHA-1 digest (20 bytes). -/
def sha1 (msg : Bytes) : Bytes := Id.run do
  let m := mdPad msg true
  let mut st := sha1Init
  for k in [0:m.size / 64] do
    st := sha1Block st m (64 * k)
  return be32 st.a ++ be32 st.b ++ be32 st.c ++ be32 st.d ++ be32 st.e

end GoBT.Crypto
