/-
  Hash combinators used by Bitcoin script: HASH160 = RIPEMD160 ∘ SHA256
  (HASH256 = `sha256d` lives in `Sha256.lean`).
-/
import GoBT.Crypto.Sha256
import GoBT.Crypto.Sha1
import GoBT.Crypto.Ripemd160

namespace GoBT.Crypto

/-- OP_HASH160 / address hash. -/
def hash160 (b : Bytes) : Bytes := ripemd160 (sha256 b)

end GoBT.Crypto
