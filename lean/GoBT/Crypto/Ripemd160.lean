/-
  RIPEMD-160 (Dobbertin, Bosselaers, Preneel 1996), executable and total.
  Core Lean only.  Little-endian words; same padding shape as SHA-1/SHA-256 but
  with a little-endian bit length.
-/
import GoBT.Crypto.Sha256

namespace GoBT.Crypto

/-- message word selection, left line. -/
def rmdR : Array Nat := #[
  0, 1, 2, 3, 4, 5, 6, 7, 8, 9, 10, 11, 12, 13, 14, 15,
  7, 4, 13, 1, 10, 6, 15, 3, 12, 0, 9, 5, 2, 14, 11, 8,
  3, 10, 14, 4, 9, 15, 8, 1, 2, 7, 0, 6, 13, 11, 5, 12,
  1, 9, 11, 10, 0, 8, 12, 4, 13, 3, 7, 15, 14, 5, 6, 2,
  4, 0, 5, 9, 7, 12, 2, 10, 14, 1, 3, 8, 11, 6, 15, 13]

/-- message word selection, right line. -/
def rmdR' : Array Nat := #[
  5, 14, 7, 0, 9, 2, 11, 4, 13, 6, 15, 8, 1, 10, 3, 12,
  6, 11, 3, 7, 0, 13, 5, 10, 14, 15, 8, 12, 4, 9, 1, 2,
  15, 5, 1, 3, 7, 14, 6, 9, 11, 8, 12, 2, 10, 0, 4, 13,
  8, 6, 4, 1, 3, 11, 15, 0, 5, 12, 2, 13, 9, 7, 10, 14,
  12, 15, 10, 4, 1, 5, 8, 7, 6, 2, 13, 14, 0, 3, 9, 11]

/-- rotation amounts, left line. -/
def rmdS : Array UInt32 := #[
  11, 14, 15, 12, 5, 8, 7, 9, 11, 13, 14, 15, 6, 7, 9, 8,
  7, 6, 8, 13, 11, 9, 7, 15, 7, 12, 15, 9, 11, 7, 13, 12,
  11, 13, 6, 7, 14, 9, 13, 15, 14, 8, 13, 6, 5, 12, 7, 5,
  11, 12, 14, 15, 14, 15, 9, 8, 9, 14, 5, 6, 8, 6, 5, 12,
  9, 15, 5, 11, 6, 8, 13, 12, 5, 12, 13, 14, 11, 8, 5, 6]

/-- rotation amounts, right line. -/
def rmdS' : Array UInt32 := #[
  8, 9, 9, 11, 13, 15, 15, 5, 7, 7, 8, 11, 14, 14, 12, 6,
  9, 13, 15, 7, 12, 8, 9, 11, 7, 7, 12, 7, 6, 15, 13, 11,
  9, 7, 15, 11, 8, 6, 6, 14, 12, 13, 5, 14, 13, 13, 7, 5,
  15, 5, 8, 11, 14, 14, 6, 14, 6, 9, 12, 9, 12, 5, 15, 8,
  8, 5, 12, 9, 12, 5, 14, 6, 8, 13, 6, 5, 15, 13, 11, 11]

def rmdK : Array UInt32 := #[0x00000000, 0x5a827999, 0x6ed9eba1, 0x8f1bbcdc, 0xa953fd4e]
def rmdK' : Array UInt32 := #[0x50a28be6, 0x5c4dd124, 0x6d703ef3, 0x7a6d76e9, 0x00000000]

/-- the five round functions, selected by group `g = j / 16`. -/
@[inline] def rmdF (g : Nat) (x y z : UInt32) : UInt32 :=
  if g == 0 then x ^^^ y ^^^ z
  else if g == 1 then (x &&& y) ||| (~~~x &&& z)
  else if g == 2 then (x ||| ~~~y) ^^^ z
  else if g == 3 then (x &&& z) ||| (y &&& ~~~z)
  else x ^^^ (y ||| ~~~z)

structure RmdState where
  h0 : UInt32
  h1 : UInt32
  h2 : UInt32
  h3 : UInt32
  h4 : UInt32

def rmdInit : RmdState :=
  ⟨0x67452301, 0xefcdab89, 0x98badcfe, 0x10325476, 0xc3d2e1f0⟩

/-- one 64-byte block starting at byte offset `off` of `m`. -/
def rmdBlock (st : RmdState) (m : Array UInt8) (off : Nat) : RmdState := Id.run do
  let mut x : Array UInt32 := Array.mkEmpty 16
  for i in [0:16] do
    x := x.push (getLE32 m (off + 4 * i))
  let mut a := st.h0
  let mut b := st.h1
  let mut c := st.h2
  let mut d := st.h3
  let mut e := st.h4
  let mut a' := st.h0
  let mut b' := st.h1
  let mut c' := st.h2
  let mut d' := st.h3
  let mut e' := st.h4
  for j in [0:80] do
    let g := j / 16
    let t := rotl32 (a + rmdF g b c d + x[rmdR[j]!]! + rmdK[g]!) rmdS[j]! + e
    a := e
    e := d
    d := rotl32 c 10
    c := b
    b := t
    let t' := rotl32 (a' + rmdF (4 - g) b' c' d' + x[rmdR'[j]!]! + rmdK'[g]!) rmdS'[j]! + e'
    a' := e'
    e' := d'
    d' := rotl32 c' 10
    c' := b'
    b' := t'
  return ⟨st.h1 + c + d', st.h2 + d + e', st.h3 + e + a', st.h4 + a + b', st.h0 + b + c'⟩

/-- RIPEMD-160 digest (20 bytes). -/
def ripemd160 (msg : Bytes) : Bytes := Id.run do
  let m := mdPad msg false
  let mut st := rmdInit
  for k in [0:m.size / 64] do
    st := rmdBlock st m (64 * k)
  return le32 st.h0 ++ le32 st.h1 ++ le32 st.h2 ++ le32 st.h3 ++ le32 st.h4

end GoBT.Crypto
