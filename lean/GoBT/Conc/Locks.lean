/-
  Reader/writer-mutex discipline: an interleaving semantics for any number of threads, each running a fixed list of
  atomic actions (acquire / release a mutex in read or write mode, read / write a field of the object a mutex guards),
  with a sequentially consistent memory of tagged values.  Core Lean only.

  This is the logic part of C18: which accesses can be simultaneously enabled.  The Go memory model, the scheduler
  and sync.RWMutex's implementation are not modelled (an RWMutex that blocks new readers while a writer waits only
  removes schedules).
-/
namespace GoBT.Conc

/-- an atomic action; `m` is a mutex (= the object it guards), `f` a field of that object -/
inductive Act
  | lock (m : Nat) (w : Bool)        -- w = true: Lock, false: RLock
  | unlock (m : Nat) (w : Bool)      -- Unlock / RUnlock
  | read (m f : Nat)
  | write (m f : Nat) (v : Nat)      -- store the tagged value v
  deriving Repr, DecidableEq

abbrev Held := List (Nat × Bool)

/-- the static discipline: every access happens while its object's mutex is held (writes in write mode), no mutex is
    acquired twice, releases match acquisitions, nothing is held at the end -/
def guardedFrom : Held → List Act → Bool
  | h, [] => h.isEmpty
  | h, .lock m w :: r => !(h.any (·.1 == m)) && guardedFrom ((m, w) :: h) r
  | h, .unlock m w :: r => h.contains (m, w) && guardedFrom (h.filter (·.1 != m)) r
  | h, .read m _ :: r => h.any (·.1 == m) && guardedFrom h r
  | h, .write m _ _ :: r => h.contains (m, true) && guardedFrom h r

structure Thread where
  held : Held
  rest : List Act
  deriving Repr

structure MState where
  writer : Option Nat := none
  readers : List Nat := []
  deriving Repr

structure State where
  threads : List Thread
  mu : Nat → MState
  mem : Nat × Nat → Nat
  /-- the values ever written to each location, newest first -/
  written : Nat × Nat → List Nat

def setMu (mu : Nat → MState) (m : Nat) (s : MState) : Nat → MState := fun k => if k = m then s else mu k

/-- one step of thread `t`; `none` = not enabled (blocked, finished, or no such thread) -/
def step (s : State) (t : Nat) : Option State :=
  match s.threads[t]? with
  | none => none
  | some th =>
    match th.rest with
    | [] => none
    | a :: r =>
      let upd (h : Held) : List Thread := s.threads.set t { held := h, rest := r }
      match a with
      | .lock m true =>
        if (s.mu m).writer.isNone && (s.mu m).readers.isEmpty then
          some { s with threads := upd ((m, true) :: th.held), mu := setMu s.mu m { writer := some t, readers := [] } }
        else none
      | .lock m false =>
        if (s.mu m).writer.isNone then
          some { s with threads := upd ((m, false) :: th.held),
                        mu := setMu s.mu m { writer := none, readers := t :: (s.mu m).readers } }
        else none
      | .unlock m true =>
        some { s with threads := upd (th.held.filter (·.1 != m)), mu := setMu s.mu m { (s.mu m) with writer := none } }
      | .unlock m false =>
        some { s with threads := upd (th.held.filter (·.1 != m)),
                      mu := setMu s.mu m { (s.mu m) with readers := (s.mu m).readers.erase t } }
      | .read _ _ => some { s with threads := upd th.held }
      | .write m f v =>
        some { s with threads := upd th.held,
                      mem := fun l => if l = (m, f) then v else s.mem l,
                      written := fun l => if l = (m, f) then v :: s.written l else s.written l }

def init (progs : List (List Act)) (mem0 : Nat × Nat → Nat) : State :=
  { threads := progs.map fun p => { held := [], rest := p }, mu := fun _ => {}, mem := mem0, written := fun _ => [] }

/-- run a schedule (a list of thread ids); steps that are not enabled are skipped -/
def run (s : State) : List Nat → State
  | [] => s
  | t :: ts => run ((step s t).getD s) ts

/-- the next action of thread `t` -/
def next (s : State) (t : Nat) : Option Act := (s.threads[t]?).bind fun th => th.rest.head?

/-- two accesses conflict: same location, at least one of them a write -/
def conflict : Act → Act → Bool
  | .write m f _, .write m' f' _ => m == m' && f == f'
  | .write m f _, .read m' f' => m == m' && f == f'
  | .read m f, .write m' f' _ => m == m' && f == f'
  | _, _ => false

/-- a data race: two different threads whose next actions (both enabled: accesses never block) conflict -/
def Race (s : State) : Prop :=
  ∃ t1 t2 a1 a2, t1 ≠ t2 ∧ next s t1 = some a1 ∧ next s t2 = some a2 ∧ conflict a1 a2 = true

end GoBT.Conc
