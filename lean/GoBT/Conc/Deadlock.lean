/-
  Deadlock freedom from a global lock order: if every program acquires mutexes in increasing order (and obeys the
  discipline of Locks.lean), then in every reachable state in which some thread still has work, some thread can step.
-/
import GoBT.Conc.LocksProofs
import GoBT.Conc.Compile
namespace GoBT.Conc

/-- the converse direction of `Inv.holds`, and the ordering discipline, in every reachable state -/
structure Inv2 (s : State) : Prop where
  wheld : ∀ (m t : Nat), (s.mu m).writer = some t → ∃ th, s.threads[t]? = some th ∧ (m, true) ∈ th.held
  rheld : ∀ (m t : Nat), t ∈ (s.mu m).readers → ∃ th, s.threads[t]? = some th ∧ (m, false) ∈ th.held
  ordered : ∀ (t : Nat) (th : Thread), s.threads[t]? = some th → orderedFrom th.held th.rest = true
  nodup : ∀ (m : Nat), (s.mu m).readers.Nodup

theorem getElem?_set_self_of_some {l : List Thread} {t : Nat} {x th : Thread} (h : l[t]? = some th) :
    (l.set t x)[t]? = some x := by
  have : t < l.length := by
    rcases Nat.lt_or_ge t l.length with c | c
    · exact c
    · rw [List.getElem?_eq_none c] at h; cases h
  exact List.getElem?_set_self this

theorem getElem?_set_other {l : List Thread} {t t' : Nat} {x : Thread} (h : t' ≠ t) :
    (l.set t x)[t']? = l[t']? := List.getElem?_set_ne (fun e => h e.symm)

/-- a thread other than the stepping one keeps its record -/
theorem other_thread {l : List Thread} {t t' : Nat} {x th' : Thread} (hne : t' ≠ t) (h : l[t']? = some th') :
    (l.set t x)[t']? = some th' := by rw [getElem?_set_other hne]; exact h

theorem step_inv2 (s s' : State) (t : Nat) (hi : Inv s) (h2 : Inv2 s) (hs : step s t = some s') : Inv2 s' := by
  unfold step at hs
  cases hth : s.threads[t]? with
  | none => rw [hth] at hs; cases hs
  | some th =>
    rw [hth] at hs
    simp only at hs
    cases hr : th.rest with
    | nil => rw [hr] at hs; cases hs
    | cons a r =>
      rw [hr] at hs
      simp only at hs
      have ho := h2.ordered t th hth
      rw [hr] at ho
      -- generic facts about the updated thread list
      have self_new : ∀ (h' : Held), (s.threads.set t { held := h', rest := r })[t]? = some { held := h', rest := r } :=
        fun h' => getElem?_set_self_of_some hth
      -- a holder other than t keeps its entry; t's entries are described case by case
      have keep : ∀ (h' : Held) (m : Nat) (w : Bool) (t' : Nat), t' ≠ t →
          (∃ th', s.threads[t']? = some th' ∧ (m, w) ∈ th'.held) →
          ∃ th', (s.threads.set t { held := h', rest := r })[t']? = some th' ∧ (m, w) ∈ th'.held := by
        intro h' m w t' hne ⟨th', e, hm⟩
        exact ⟨th', other_thread hne e, hm⟩
      have ord_others : ∀ (h' : Held) (t' : Nat) (th' : Thread), t' ≠ t →
          (s.threads.set t { held := h', rest := r })[t']? = some th' → orderedFrom th'.held th'.rest = true := by
        intro h' t' th' hne e
        rw [getElem?_set_other hne] at e
        exact h2.ordered t' th' e
      cases a with
      | lock m w =>
        cases w with
        | true =>
          simp only at hs
          split at hs
          · next hc =>
            cases hs
            simp only [orderedFrom, Bool.and_eq_true] at ho
            refine ⟨?_, ?_, ?_, ?_⟩
            · intro m' t' hw
              by_cases em : m' = m
              · subst em
                simp only [setMu, ↓reduceIte, Option.some.injEq] at hw
                subst hw
                exact ⟨_, self_new _, by simp⟩
              · simp only [setMu, em, ↓reduceIte] at hw
                obtain ⟨th', e, hm⟩ := h2.wheld m' t' hw
                by_cases et : t' = t
                · subst et
                  rw [hth] at e; cases e
                  exact ⟨_, self_new _, by simp [hm]⟩
                · exact keep _ _ _ _ et ⟨th', e, hm⟩
            · intro m' t' hrd
              by_cases em : m' = m
              · subst em; simp [setMu] at hrd
              · simp only [setMu, em, ↓reduceIte] at hrd
                obtain ⟨th', e, hm⟩ := h2.rheld m' t' hrd
                by_cases et : t' = t
                · subst et
                  rw [hth] at e; cases e
                  exact ⟨_, self_new _, by simp [hm]⟩
                · exact keep _ _ _ _ et ⟨th', e, hm⟩
            · intro t' th' e
              by_cases et : t' = t
              · subst et
                rw [self_new] at e; cases e
                exact ho.2
              · exact ord_others _ t' th' et e
            · intro m'
              by_cases em : m' = m
              · subst em; simp [setMu]
              · simp only [setMu, em, ↓reduceIte]; exact h2.nodup m'
          · cases hs
        | false =>
          simp only at hs
          split at hs
          · next hc =>
            cases hs
            simp only [orderedFrom, Bool.and_eq_true] at ho
            refine ⟨?_, ?_, ?_, ?_⟩
            · intro m' t' hw
              by_cases em : m' = m
              · subst em; simp [setMu] at hw
              · simp only [setMu, em, ↓reduceIte] at hw
                obtain ⟨th', e, hm⟩ := h2.wheld m' t' hw
                by_cases et : t' = t
                · subst et
                  rw [hth] at e; cases e
                  exact ⟨_, self_new _, by simp [hm]⟩
                · exact keep _ _ _ _ et ⟨th', e, hm⟩
            · intro m' t' hrd
              by_cases em : m' = m
              · subst em
                simp only [setMu, ↓reduceIte, List.mem_cons] at hrd
                by_cases et : t' = t
                · subst et; exact ⟨_, self_new _, by simp⟩
                · rcases hrd with e | hrd
                  · exact absurd e et
                  · obtain ⟨th', e, hm⟩ := h2.rheld m' t' hrd
                    exact keep _ _ _ _ et ⟨th', e, hm⟩
              · simp only [setMu, em, ↓reduceIte] at hrd
                obtain ⟨th', e, hm⟩ := h2.rheld m' t' hrd
                by_cases et : t' = t
                · subst et
                  rw [hth] at e; cases e
                  exact ⟨_, self_new _, by simp [hm]⟩
                · exact keep _ _ _ _ et ⟨th', e, hm⟩
            · intro t' th' e
              by_cases et : t' = t
              · subst et
                rw [self_new] at e; cases e
                exact ho.2
              · exact ord_others _ t' th' et e
            · intro m'
              by_cases em : m' = m
              · subst em
                simp only [setMu, ↓reduceIte, List.nodup_cons]
                refine ⟨?_, h2.nodup m'⟩
                intro hin
                obtain ⟨th', e, hm⟩ := h2.rheld m' t hin
                rw [hth] at e; cases e
                have hg := hi.guarded t th hth
                rw [hr] at hg
                simp only [guardedFrom, Bool.and_eq_true, Bool.not_eq_eq_eq_not, Bool.not_true, List.any_eq_false,
                  beq_iff_eq] at hg
                exact hg.1 _ hm rfl
              · simp only [setMu, em, ↓reduceIte]; exact h2.nodup m'
          · cases hs
      | unlock m w =>
        have hg := hi.guarded t th hth
        rw [hr] at hg
        simp only [guardedFrom, Bool.and_eq_true] at hg
        simp only [orderedFrom] at ho
        -- what t keeps: entries on other mutexes
        have tkeeps : ∀ (m' : Nat) (w' : Bool), m' ≠ m → (m', w') ∈ th.held → (m', w') ∈ th.held.filter (·.1 != m) := by
          intro m' w' hne hm
          simp only [List.mem_filter, bne_iff_ne, ne_eq]
          exact ⟨hm, hne⟩
        cases w with
        | true =>
          simp only at hs
          cases hs
          have hmine := hi.holds t th m true hth (contains_mem hg.1)
          simp only [↓reduceIte] at hmine
          refine ⟨?_, ?_, ?_, ?_⟩
          · intro m' t' hw
            by_cases em : m' = m
            · subst em; simp [setMu] at hw
            · simp only [setMu, em, ↓reduceIte] at hw
              obtain ⟨th', e, hm⟩ := h2.wheld m' t' hw
              by_cases et : t' = t
              · subst et
                rw [hth] at e; cases e
                exact ⟨_, self_new _, tkeeps _ _ em hm⟩
              · exact keep _ _ _ _ et ⟨th', e, hm⟩
          · intro m' t' hrd
            by_cases em : m' = m
            · subst em
              simp only [setMu, ↓reduceIte] at hrd
              rw [hi.excl m' t hmine] at hrd
              cases hrd
            · simp only [setMu, em, ↓reduceIte] at hrd
              obtain ⟨th', e, hm⟩ := h2.rheld m' t' hrd
              by_cases et : t' = t
              · subst et
                rw [hth] at e; cases e
                exact ⟨_, self_new _, tkeeps _ _ em hm⟩
              · exact keep _ _ _ _ et ⟨th', e, hm⟩
          · intro t' th' e
            by_cases et : t' = t
            · subst et
              rw [self_new] at e; cases e
              exact ho
            · exact ord_others _ t' th' et e
          · intro m'
            by_cases em : m' = m
            · subst em; simp only [setMu, ↓reduceIte]; exact h2.nodup m'
            · simp only [setMu, em, ↓reduceIte]; exact h2.nodup m'
        | false =>
          simp only at hs
          cases hs
          refine ⟨?_, ?_, ?_, ?_⟩
          · intro m' t' hw
            have hw' : (s.mu m').writer = some t' := by
              by_cases em : m' = m
              · subst em; simpa [setMu] using hw
              · simpa [setMu, em] using hw
            obtain ⟨th', e, hm⟩ := h2.wheld m' t' hw'
            by_cases et : t' = t
            · subst et
              rw [hth] at e; cases e
              by_cases em : m' = m
              · -- t would hold m in write mode and in read mode: excluded by the invariant
                subst em
                have hrd := hi.holds t' th m' false hth (contains_mem hg.1)
                simp only [Bool.false_eq_true, ↓reduceIte] at hrd
                rw [hi.excl m' t' hw'] at hrd
                cases hrd
              · exact ⟨_, self_new _, tkeeps _ _ em hm⟩
            · exact keep _ _ _ _ et ⟨th', e, hm⟩
          · intro m' t' hrd
            by_cases em : m' = m
            · subst em
              simp only [setMu, ↓reduceIte] at hrd
              have hin : t' ∈ (s.mu m').readers := List.mem_of_mem_erase hrd
              obtain ⟨th', e, hm⟩ := h2.rheld m' t' hin
              by_cases et : t' = t
              · -- t was erased once; a second occurrence would mean t held the read lock twice
                subst et
                have := ((h2.nodup m').mem_erase_iff (a := t') (b := t')).mp hrd
                exact absurd rfl this.1
              · exact keep _ _ _ _ et ⟨th', e, hm⟩
            · simp only [setMu, em, ↓reduceIte] at hrd
              obtain ⟨th', e, hm⟩ := h2.rheld m' t' hrd
              by_cases et : t' = t
              · subst et
                rw [hth] at e; cases e
                exact ⟨_, self_new _, tkeeps _ _ em hm⟩
              · exact keep _ _ _ _ et ⟨th', e, hm⟩
          · intro t' th' e
            by_cases et : t' = t
            · subst et
              rw [self_new] at e; cases e
              exact ho
            · exact ord_others _ t' th' et e
          · intro m'
            by_cases em : m' = m
            · subst em; simp only [setMu, ↓reduceIte]; exact (h2.nodup m').erase t
            · simp only [setMu, em, ↓reduceIte]; exact h2.nodup m'
      | read m f =>
        simp only at hs
        cases hs
        simp only [orderedFrom] at ho
        refine ⟨?_, ?_, ?_, ?_⟩
        · intro m' t' hw
          obtain ⟨th', e, hm⟩ := h2.wheld m' t' hw
          by_cases et : t' = t
          · subst et; rw [hth] at e; cases e; exact ⟨_, self_new _, hm⟩
          · exact keep _ _ _ _ et ⟨th', e, hm⟩
        · intro m' t' hrd
          obtain ⟨th', e, hm⟩ := h2.rheld m' t' hrd
          by_cases et : t' = t
          · subst et; rw [hth] at e; cases e; exact ⟨_, self_new _, hm⟩
          · exact keep _ _ _ _ et ⟨th', e, hm⟩
        · intro t' th' e
          by_cases et : t' = t
          · subst et; rw [self_new] at e; cases e; exact ho
          · exact ord_others _ t' th' et e
        · exact h2.nodup
      | write m f v =>
        simp only at hs
        cases hs
        simp only [orderedFrom] at ho
        refine ⟨?_, ?_, ?_, ?_⟩
        · intro m' t' hw
          obtain ⟨th', e, hm⟩ := h2.wheld m' t' hw
          by_cases et : t' = t
          · subst et; rw [hth] at e; cases e; exact ⟨_, self_new _, hm⟩
          · exact keep _ _ _ _ et ⟨th', e, hm⟩
        · intro m' t' hrd
          obtain ⟨th', e, hm⟩ := h2.rheld m' t' hrd
          by_cases et : t' = t
          · subst et; rw [hth] at e; cases e; exact ⟨_, self_new _, hm⟩
          · exact keep _ _ _ _ et ⟨th', e, hm⟩
        · intro t' th' e
          by_cases et : t' = t
          · subst et; rw [self_new] at e; cases e; exact ho
          · exact ord_others _ t' th' et e
        · exact h2.nodup

theorem init_inv2 (progs : List (List Act)) (mem0 : Nat × Nat → Nat)
    (ho : ∀ p ∈ progs, orderedFrom [] p = true) : Inv2 (init progs mem0) := by
  refine ⟨?_, ?_, ?_, ?_⟩
  · intro m t h; simp [init] at h
  · intro m t h; simp [init] at h
  · intro t th h
    simp only [init, List.getElem?_map, Option.map_eq_some_iff] at h
    obtain ⟨p, hp, e⟩ := h
    subst e
    exact ho p (List.mem_of_getElem? hp)
  · intro m; simp [init]

theorem run_inv_both (s : State) (sched : List Nat) (hi : Inv s) (h2 : Inv2 s) :
    Inv (run s sched) ∧ Inv2 (run s sched) := by
  induction sched generalizing s with
  | nil => exact ⟨hi, h2⟩
  | cons t ts ih =>
    simp only [run]
    cases hs : step s t with
    | none => simpa using ih s hi h2
    | some s' => simpa using ih s' (step_inv s s' t hi hs) (step_inv2 s s' t hi h2 hs)

/-- a non-empty list of pairs has one with a maximal second component -/
theorem exists_max_snd (l : List (Nat × Nat)) (hne : l ≠ []) : ∃ x ∈ l, ∀ y ∈ l, y.2 ≤ x.2 := by
  induction l with
  | nil => exact absurd rfl hne
  | cons a rest ih =>
    by_cases hr : rest = []
    · subst hr; exact ⟨a, by simp, by intro y hy; simp at hy; subst hy; exact Nat.le_refl _⟩
    · obtain ⟨x, hx, hmax⟩ := ih hr
      by_cases hc : x.2 ≤ a.2
      · refine ⟨a, by simp, ?_⟩
        intro y hy
        simp only [List.mem_cons] at hy
        rcases hy with e | hy
        · subst e; exact Nat.le_refl _
        · exact Nat.le_trans (hmax y hy) hc
      · refine ⟨x, by simp [hx], ?_⟩
        intro y hy
        simp only [List.mem_cons] at hy
        rcases hy with e | hy
        · subst e; omega
        · exact hmax y hy

/-- the mutex a thread is trying to acquire -/
def wants (s : State) (t : Nat) : Option Nat :=
  match s.threads[t]? with
  | some th => match th.rest with
    | .lock m _ :: _ => some m
    | _ => none
  | none => none

/-- a thread whose next action is not a lock can always step -/
theorem step_of_nonlock (s : State) (t : Nat) (th : Thread) (a : Act) (r : List Act)
    (hth : s.threads[t]? = some th) (hr : th.rest = a :: r) (hnl : ∀ m w, a ≠ .lock m w) : (step s t).isSome = true := by
  unfold step
  rw [hth]
  simp only [hr]
  cases a with
  | lock m w => exact absurd rfl (hnl m w)
  | unlock m w => cases w <;> rfl
  | read m f => rfl
  | write m f v => rfl

/-- **No deadlock.**  In a state satisfying the invariants of guarded, ordered programs, if some thread still has
    actions left then some thread can take a step. -/
theorem progress (s : State) (hi : Inv s) (h2 : Inv2 s)
    (hwork : ∃ (t : Nat) (th : Thread), s.threads[t]? = some th ∧ th.rest ≠ []) : ∃ t, (step s t).isSome = true := by
  -- suppose nobody can step
  apply Classical.byContradiction
  intro hstuck
  have stuck : ∀ t, (step s t).isSome = false := by
    intro t
    cases h : (step s t).isSome with
    | false => rfl
    | true => exact absurd ⟨t, h⟩ hstuck
  -- every thread with work left is waiting for a lock
  have waiting : ∀ (t : Nat) (th : Thread), s.threads[t]? = some th → th.rest ≠ [] → ∃ m w r, th.rest = Act.lock m w :: r := by
    intro t th hth hne
    cases hr : th.rest with
    | nil => exact absurd hr hne
    | cons a r =>
      cases a with
      | lock m w => exact ⟨m, w, r, rfl⟩
      | unlock m w =>
        have := step_of_nonlock s t th _ r hth hr (by intro m' w' e; cases e)
        rw [stuck t] at this; cases this
      | read m f =>
        have := step_of_nonlock s t th _ r hth hr (by intro m' w' e; cases e)
        rw [stuck t] at this; cases this
      | write m f v =>
        have := step_of_nonlock s t th _ r hth hr (by intro m' w' e; cases e)
        rw [stuck t] at this; cases this
  -- the waiting threads with the mutex each wants
  let L : List (Nat × Nat) := (List.range s.threads.length).filterMap fun t => (wants s t).map fun m => (t, m)
  have memL : ∀ t m, (t, m) ∈ L ↔ wants s t = some m ∧ t < s.threads.length := by
    intro t m
    simp only [L, List.mem_filterMap, List.mem_range, Option.map_eq_some_iff, Prod.mk.injEq]
    constructor
    · rintro ⟨t', hlt, m', hw, e1, e2⟩
      subst e1; subst e2; exact ⟨hw, hlt⟩
    · rintro ⟨hw, hlt⟩
      exact ⟨t, hlt, m, hw, rfl, rfl⟩
  obtain ⟨t0, th0, hth0, hne0⟩ := hwork
  obtain ⟨m0, w0, r0, hr0⟩ := waiting t0 th0 hth0 hne0
  have hlt0 : t0 < s.threads.length := by
    rcases Nat.lt_or_ge t0 s.threads.length with c | c
    · exact c
    · rw [List.getElem?_eq_none c] at hth0; cases hth0
  have hLne : L ≠ [] := by
    intro e
    have : (t0, m0) ∈ L := (memL t0 m0).mpr ⟨by simp [wants, hth0, hr0], hlt0⟩
    rw [e] at this; cases this
  obtain ⟨⟨t, m⟩, hin, hmax⟩ := exists_max_snd L hLne
  obtain ⟨hw, hlt⟩ := (memL t m).mp hin
  -- t waits for m: unfold
  obtain ⟨th, hth⟩ : ∃ th, s.threads[t]? = some th := ⟨s.threads[t], List.getElem?_eq_getElem hlt⟩
  have hrest : ∃ w r, th.rest = Act.lock m w :: r := by
    simp only [wants, hth] at hw
    split at hw
    · next m' w' r' hr' => simp only [Option.some.injEq] at hw; subst hw; exact ⟨w', r', hr'⟩
    · cases hw
  obtain ⟨w, r, hr⟩ := hrest
  have hg := hi.guarded t th hth
  rw [hr] at hg
  simp only [guardedFrom, Bool.and_eq_true, Bool.not_eq_eq_eq_not, Bool.not_true, List.any_eq_false, beq_iff_eq] at hg
  -- t is blocked, so somebody holds m
  have blocked := stuck t
  unfold step at blocked
  rw [hth] at blocked
  simp only [hr] at blocked
  have holder : ∃ (h : Nat) (thh : Thread) (w' : Bool), s.threads[h]? = some thh ∧ (m, w') ∈ thh.held := by
    cases w with
    | true =>
      simp only at blocked
      split at blocked
      · cases blocked
      · next hc =>
        simp only [Bool.and_eq_true, Option.isNone_iff_eq_none, List.isEmpty_iff, not_and] at hc
        cases hwr : (s.mu m).writer with
        | some h =>
          obtain ⟨thh, e, hm⟩ := h2.wheld m h hwr
          exact ⟨h, thh, true, e, hm⟩
        | none =>
          have hrd := hc hwr
          cases hrs : (s.mu m).readers with
          | nil => exact absurd hrs hrd
          | cons h rest =>
            obtain ⟨thh, e, hm⟩ := h2.rheld m h (by rw [hrs]; simp)
            exact ⟨h, thh, false, e, hm⟩
    | false =>
      simp only at blocked
      split at blocked
      · cases blocked
      · next hc =>
        simp only [Option.isNone_iff_eq_none] at hc
        cases hwr : (s.mu m).writer with
        | some h =>
          obtain ⟨thh, e, hm⟩ := h2.wheld m h hwr
          exact ⟨h, thh, true, e, hm⟩
        | none => exact absurd hwr hc
  obtain ⟨h, thh, w', hthh, hheld⟩ := holder
  -- the holder is not t (t does not hold m), has work left (held is non-empty), hence waits for a larger mutex
  have hne_t : h ≠ t := by
    intro e; subst e
    rw [hth] at hthh; cases hthh
    exact hg.1 _ hheld rfl
  have hwork_h : thh.rest ≠ [] := by
    intro e
    have := hi.guarded h thh hthh
    rw [e] at this
    simp only [guardedFrom, List.isEmpty_iff] at this
    rw [this] at hheld; cases hheld
  obtain ⟨mh, wh, rh, hrh⟩ := waiting h thh hthh hwork_h
  have hoh := h2.ordered h thh hthh
  rw [hrh] at hoh
  simp only [orderedFrom, Bool.and_eq_true, List.all_eq_true, decide_eq_true_eq] at hoh
  have hlt_m : m < mh := hoh.1 _ hheld
  have hlth : h < s.threads.length := by
    rcases Nat.lt_or_ge h s.threads.length with c | c
    · exact c
    · rw [List.getElem?_eq_none c] at hthh; cases hthh
  have : (h, mh) ∈ L := (memL h mh).mpr ⟨by simp [wants, hthh, hrh], hlth⟩
  have := hmax _ this
  simp only at this
  omega

/-- **Deadlock freedom of guarded, ordered programs**, for every program set, initial memory and schedule. -/
theorem no_deadlock (progs : List (List Act)) (mem0 : Nat × Nat → Nat) (sched : List Nat)
    (hg : ∀ p ∈ progs, guardedFrom [] p = true) (ho : ∀ p ∈ progs, orderedFrom [] p = true)
    (hwork : ∃ (t : Nat) (th : Thread), (run (init progs mem0) sched).threads[t]? = some th ∧ th.rest ≠ []) :
    ∃ t, (step (run (init progs mem0) sched) t).isSome = true := by
  obtain ⟨hi, h2⟩ := run_inv_both _ sched (init_inv progs mem0 hg) (init_inv2 progs mem0 ho)
  exact progress _ hi h2 hwork

end GoBT.Conc
