/-
  Threads that only read shared immutable data and read/write their own frame: whatever the interleaving, each
  computes exactly what it computes alone.  (The engine is stateless — Gen/Shared — and each Execute call builds its
  own thread object; this is the logic of "concurrent validation = sequential validation".)  Core Lean only.
-/
namespace GoBT.Conc

def iter {σ : Type} (f : σ → σ) : Nat → σ → σ
  | 0, x => x
  | n + 1, x => iter f n (f x)

/-- task `t` performs one step on its own frame; `f t` may depend on any immutable shared data -/
def runSched {σ : Type} (f : Nat → σ → σ) (frames : List σ) : List Nat → List σ
  | [] => frames
  | t :: ts => runSched f (frames.modify t (f t)) ts

theorem runSched_frame {σ : Type} (f : Nat → σ → σ) (frames : List σ) (sched : List Nat) (i : Nat) :
    (runSched f frames sched)[i]? = (frames[i]?).map (iter (f i) (sched.count i)) := by
  induction sched generalizing frames with
  | nil => simp [runSched, iter]
  | cons t ts ih =>
    simp only [runSched]
    rw [ih]
    by_cases e : t = i
    · subst e
      simp only [List.getElem?_modify_eq, List.count_cons_self]
      cases frames[t]? with
      | none => rfl
      | some x => rfl
    · have : (List.modify frames t (f t))[i]? = frames[i]? := by
        rw [List.getElem?_modify]
        simp [e]
      rw [this, List.count_cons_of_ne (fun h => e h)]

end GoBT.Conc
