/-
  From the extracted facts (Gen/Locks.lean: per method, the lock operations / field accesses / lock-taking calls in
  body order) to programs of the lock model.  Core Lean only.
-/
import GoBT.Conc.Locks
import GoBT.Gen.Locks
namespace GoBT.Conc

abbrev Raw := String × String × String

def fieldIx (f : String) : Nat := f.toList.foldl (fun acc c => acc * 131 + c.toNat) 7

def objId (self other : Nat) (obj : String) : Option Nat :=
  if obj == "self" then some self else if obj == "other" then some other else none

/-- a lock operation or field access; `none` for anything else -/
def compileSimple (o : Nat) (kind arg : String) : Option (List Act) :=
  if kind == "lock" then (if arg == "mu" then some [.lock o true] else none)
  else if kind == "rlock" then (if arg == "mu" then some [.lock o false] else none)
  else if kind == "unlock" then (if arg == "mu" then some [.unlock o true] else none)
  else if kind == "runlock" then (if arg == "mu" then some [.unlock o false] else none)
  else if kind == "read" then some [.read o (fieldIx arg)]
  else if kind == "write" then some [.write o (fieldIx arg) 0]
  else none

/-- a body without calls -/
def compileFlat (self other : Nat) : List Raw → Option (List Act)
  | [] => some []
  | (kind, obj, arg) :: rest => do
    let o ← objId self other obj
    let here ← compileSimple o kind arg
    let tl ← compileFlat self other rest
    pure (here ++ tl)

/-- a method body for receiver `self`; objects reached through the receiver are `other`.  A call of a lock-taking
    method on `other` is inlined (the callee runs with `other` as its receiver and must not call on); a call on the
    receiver itself is rejected (it would re-acquire the receiver's mutex). -/
def compileBody (table : List (String × List Raw)) (self other : Nat) : List Raw → Option (List Act)
  | [] => some []
  | (kind, obj, arg) :: rest => do
    let o ← objId self other obj
    let here ←
      if kind == "call" then
        (if obj == "self" then none else
          match table.lookup arg with
          | none => none
          | some body => compileFlat o o body)
      else compileSimple o kind arg
    let tl ← compileBody table self other rest
    pure (here ++ tl)

/-- every method compiles and obeys the discipline -/
def allGuarded (table : List (String × List Raw)) : Bool :=
  table.all fun (_, body) =>
    match compileBody table 0 1 body with
    | some p => guardedFrom [] p
    | none => false

/-- mutexes are only ever acquired in increasing object order (receiver before the object reached through it) -/
def orderedFrom : Held → List Act → Bool
  | _, [] => true
  | h, .lock m w :: r => h.all (·.1 < m) && orderedFrom ((m, w) :: h) r
  | h, .unlock m _ :: r => orderedFrom (h.filter (·.1 != m)) r
  | h, _ :: r => orderedFrom h r

def allOrdered (table : List (String × List Raw)) : Bool :=
  table.all fun (_, body) =>
    match compileBody table 0 1 body with
    | some p => orderedFrom [] p
    | none => false

end GoBT.Conc
