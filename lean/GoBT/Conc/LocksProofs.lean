import GoBT.Conc.Locks
namespace GoBT.Conc

/-- what is true in every reachable state of guarded programs -/
structure Inv (s : State) : Prop where
  guarded : ∀ (t : Nat) (th : Thread), s.threads[t]? = some th → guardedFrom th.held th.rest = true
  holds : ∀ (t : Nat) (th : Thread) (m : Nat) (w : Bool), s.threads[t]? = some th → (m, w) ∈ th.held →
            (if w = true then (s.mu m).writer = some t else t ∈ (s.mu m).readers)
  excl : ∀ (m t : Nat), (s.mu m).writer = some t → (s.mu m).readers = []

theorem getElem?_set_thread {l : List Thread} {t t' : Nat} {x th : Thread} (h : (l.set t x)[t']? = some th) :
    (t' = t ∧ th = x ∧ t < l.length) ∨ (t' ≠ t ∧ l[t']? = some th) := by
  by_cases e : t' = t
  · subst e
    rcases Nat.lt_or_ge t' l.length with c | c
    · rw [List.getElem?_set_self c] at h
      injection h with h
      exact Or.inl ⟨rfl, h.symm, c⟩
    · rw [List.getElem?_eq_none (by simpa using c)] at h
      cases h
  · right
    refine ⟨e, ?_⟩
    rw [List.getElem?_set_ne (fun h' => e h'.symm)] at h
    exact h

theorem mem_filter_ne {h : Held} {m m' : Nat} {w : Bool} (hm : (m', w) ∈ h.filter (·.1 != m)) :
    (m', w) ∈ h ∧ m' ≠ m := by
  simp only [List.mem_filter, bne_iff_ne, ne_eq] at hm
  exact hm

theorem any_fst {h : Held} {m : Nat} (ha : h.any (·.1 == m) = true) : ∃ w, (m, w) ∈ h := by
  simp only [List.any_eq_true, beq_iff_eq] at ha
  obtain ⟨⟨m', w⟩, hin, he⟩ := ha
  simp only at he
  subst he
  exact ⟨w, hin⟩

theorem contains_mem {h : Held} {x : Nat × Bool} (hc : h.contains x = true) : x ∈ h := by
  simpa using hc

/-- the invariant is preserved by every enabled step -/
theorem step_inv (s s' : State) (t : Nat) (hi : Inv s) (hs : step s t = some s') : Inv s' := by
  unfold step at hs
  cases hth : s.threads[t]? with
  | none => rw [hth] at hs; cases hs
  | some th =>
    rw [hth] at hs
    simp only at hs
    cases hr : th.rest with
    | nil => rw [hr] at hs; cases hs
    | cons a r =>
      rw [hr] at hs
      simp only at hs
      have hg := hi.guarded t th hth
      rw [hr] at hg
      cases a with
      | lock m w =>
        cases w with
        | true =>
          simp only at hs
          split at hs
          · next hc =>
            cases hs
            simp only [Bool.and_eq_true, Option.isNone_iff_eq_none, List.isEmpty_iff] at hc
            obtain ⟨hw, hrd⟩ := hc
            simp only [guardedFrom, Bool.and_eq_true, Bool.not_eq_eq_eq_not, Bool.not_true] at hg
            -- nobody holds m
            have nobody : ∀ (t' : Nat) (th' : Thread) (w' : Bool), s.threads[t']? = some th' → (m, w') ∈ th'.held → False := by
              intro t' th' w' h1 h2
              have := hi.holds t' th' m w' h1 h2
              cases w' with
              | true => simp only [↓reduceIte, hw] at this; cases this
              | false => simp only [Bool.false_eq_true, ↓reduceIte, hrd, List.not_mem_nil] at this
            refine ⟨?_, ?_, ?_⟩
            · intro t' th' h1
              rcases getElem?_set_thread h1 with ⟨_, e, _⟩ | ⟨_, e⟩
              · subst e; exact hg.2
              · exact hi.guarded t' th' e
            · intro t' th' m' w' h1 h2
              rcases getElem?_set_thread h1 with ⟨e1, e, _⟩ | ⟨ne, e⟩
              · subst e; subst e1
                simp only [List.mem_cons, Prod.mk.injEq] at h2
                rcases h2 with ⟨e1, e2⟩ | h2
                · subst e1; subst e2; simp [setMu]
                · by_cases em : m' = m
                  · subst em; exact (nobody t' th w' hth h2).elim
                  · have := hi.holds t' th m' w' hth h2
                    simpa [setMu, em] using this
              · by_cases em : m' = m
                · subst em; exact (nobody t' th' w' e h2).elim
                · have := hi.holds t' th' m' w' e h2
                  simpa [setMu, em] using this
            · intro m' t' h1
              by_cases em : m' = m
              · subst em; simp [setMu]
              · simp only [setMu, em, ↓reduceIte] at h1 ⊢
                exact hi.excl m' t' h1
          · cases hs
        | false =>
          simp only at hs
          split at hs
          · next hc =>
            cases hs
            simp only [Option.isNone_iff_eq_none] at hc
            simp only [guardedFrom, Bool.and_eq_true, Bool.not_eq_eq_eq_not, Bool.not_true] at hg
            refine ⟨?_, ?_, ?_⟩
            · intro t' th' h1
              rcases getElem?_set_thread h1 with ⟨_, e, _⟩ | ⟨_, e⟩
              · subst e; exact hg.2
              · exact hi.guarded t' th' e
            · intro t' th' m' w' h1 h2
              have key : ∀ (tt : Nat) (thh : Thread), s.threads[tt]? = some thh → (m', w') ∈ thh.held →
                  (if w' = true then (setMu s.mu m { writer := none, readers := t :: (s.mu m).readers } m').writer = some tt
                   else tt ∈ (setMu s.mu m { writer := none, readers := t :: (s.mu m).readers } m').readers) := by
                intro tt thh g1 g2
                have := hi.holds tt thh m' w' g1 g2
                by_cases em : m' = m
                · subst em
                  cases w' with
                  | true => simp only [↓reduceIte, hc] at this; cases this
                  | false =>
                    simp only [Bool.false_eq_true, ↓reduceIte] at this
                    simp [setMu, this]
                · simpa [setMu, em] using this
              rcases getElem?_set_thread h1 with ⟨e1, e, _⟩ | ⟨ne, e⟩
              · subst e; subst e1
                simp only [List.mem_cons, Prod.mk.injEq] at h2
                rcases h2 with ⟨e1, e2⟩ | h2
                · subst e1; subst e2; simp [setMu]
                · exact key t' th hth h2
              · exact key t' th' e h2
            · intro m' t' h1
              by_cases em : m' = m
              · subst em; simp [setMu] at h1
              · simp only [setMu, em, ↓reduceIte] at h1 ⊢
                exact hi.excl m' t' h1
          · cases hs
      | unlock m w =>
        cases w with
        | true =>
          simp only at hs
          cases hs
          simp only [guardedFrom, Bool.and_eq_true] at hg
          have hmine := hi.holds t th m true hth (contains_mem hg.1)
          simp only [↓reduceIte] at hmine
          have hnord := hi.excl m t hmine
          refine ⟨?_, ?_, ?_⟩
          · intro t' th' h1
            rcases getElem?_set_thread h1 with ⟨_, e, _⟩ | ⟨_, e⟩
            · subst e; exact hg.2
            · exact hi.guarded t' th' e
          · intro t' th' m' w' h1 h2
            rcases getElem?_set_thread h1 with ⟨e1, e, _⟩ | ⟨ne, e⟩
            · subst e; subst e1
              obtain ⟨h3, em⟩ := mem_filter_ne h2
              have := hi.holds t' th m' w' hth h3
              simpa [setMu, em] using this
            · have := hi.holds t' th' m' w' e h2
              by_cases em : m' = m
              · subst em
                cases w' with
                | true =>
                  simp only [↓reduceIte, hmine, Option.some.injEq] at this
                  exact (ne this.symm).elim
                | false =>
                  simp only [Bool.false_eq_true, ↓reduceIte, hnord, List.not_mem_nil] at this
              · simpa [setMu, em] using this
          · intro m' t' h1
            by_cases em : m' = m
            · subst em; simp [setMu] at h1
            · simp only [setMu, em, ↓reduceIte] at h1 ⊢
              exact hi.excl m' t' h1
        | false =>
          simp only at hs
          cases hs
          simp only [guardedFrom, Bool.and_eq_true] at hg
          refine ⟨?_, ?_, ?_⟩
          · intro t' th' h1
            rcases getElem?_set_thread h1 with ⟨_, e, _⟩ | ⟨_, e⟩
            · subst e; exact hg.2
            · exact hi.guarded t' th' e
          · intro t' th' m' w' h1 h2
            rcases getElem?_set_thread h1 with ⟨e1, e, _⟩ | ⟨ne, e⟩
            · subst e; subst e1
              obtain ⟨h3, em⟩ := mem_filter_ne h2
              have := hi.holds t' th m' w' hth h3
              simpa [setMu, em] using this
            · have := hi.holds t' th' m' w' e h2
              by_cases em : m' = m
              · subst em
                cases w' with
                | true => simpa [setMu] using this
                | false =>
                  simp only [Bool.false_eq_true, ↓reduceIte] at this
                  simp only [Bool.false_eq_true, ↓reduceIte, setMu]
                  exact (List.mem_erase_of_ne ne).mpr this
              · simpa [setMu, em] using this
          · intro m' t' h1
            by_cases em : m' = m
            · subst em
              simp only [setMu, ↓reduceIte] at h1 ⊢
              rw [hi.excl m' t' h1]; rfl
            · simp only [setMu, em, ↓reduceIte] at h1 ⊢
              exact hi.excl m' t' h1
      | read m f =>
        simp only at hs
        cases hs
        simp only [guardedFrom, Bool.and_eq_true] at hg
        refine ⟨?_, ?_, hi.excl⟩
        · intro t' th' h1
          rcases getElem?_set_thread h1 with ⟨_, e, _⟩ | ⟨_, e⟩
          · subst e; exact hg.2
          · exact hi.guarded t' th' e
        · intro t' th' m' w' h1 h2
          rcases getElem?_set_thread h1 with ⟨e1, e, _⟩ | ⟨ne, e⟩
          · subst e; subst e1; exact hi.holds t' th m' w' hth h2
          · exact hi.holds t' th' m' w' e h2
      | write m f v =>
        simp only at hs
        cases hs
        simp only [guardedFrom, Bool.and_eq_true] at hg
        refine ⟨?_, ?_, hi.excl⟩
        · intro t' th' h1
          rcases getElem?_set_thread h1 with ⟨_, e, _⟩ | ⟨_, e⟩
          · subst e; exact hg.2
          · exact hi.guarded t' th' e
        · intro t' th' m' w' h1 h2
          rcases getElem?_set_thread h1 with ⟨e1, e, _⟩ | ⟨ne, e⟩
          · subst e; subst e1; exact hi.holds t' th m' w' hth h2
          · exact hi.holds t' th' m' w' e h2

theorem init_inv (progs : List (List Act)) (mem0 : Nat × Nat → Nat)
    (hg : ∀ p ∈ progs, guardedFrom [] p = true) : Inv (init progs mem0) := by
  refine ⟨?_, ?_, ?_⟩
  · intro t th h
    simp only [init, List.getElem?_map, Option.map_eq_some_iff] at h
    obtain ⟨p, hp, e⟩ := h
    subst e
    exact hg p (List.mem_of_getElem? hp)
  · intro t th m w h hm
    simp only [init, List.getElem?_map, Option.map_eq_some_iff] at h
    obtain ⟨p, hp, e⟩ := h
    subst e
    simp at hm
  · intro m t h
    simp [init] at h

theorem run_inv (s : State) (sched : List Nat) (hi : Inv s) : Inv (run s sched) := by
  induction sched generalizing s with
  | nil => exact hi
  | cons t ts ih =>
    simp only [run]
    cases hs : step s t with
    | none => simpa using ih s hi
    | some s' => simpa using ih s' (step_inv s s' t hi hs)

/-- an invariant state has no data race -/
theorem inv_no_race (s : State) (hi : Inv s) : ¬ Race s := by
  rintro ⟨t1, t2, a1, a2, hne, h1, h2, hc⟩
  unfold next at h1 h2
  cases ht1 : s.threads[t1]? with
  | none => rw [ht1] at h1; cases h1
  | some th1 =>
    cases ht2 : s.threads[t2]? with
    | none => rw [ht2] at h2; cases h2
    | some th2 =>
      rw [ht1] at h1; rw [ht2] at h2
      simp only [Option.bind_some] at h1 h2
      have g1 := hi.guarded t1 th1 ht1
      have g2 := hi.guarded t2 th2 ht2
      cases r1 : th1.rest with
      | nil => rw [r1] at h1; cases h1
      | cons b1 q1 =>
        cases r2 : th2.rest with
        | nil => rw [r2] at h2; cases h2
        | cons b2 q2 =>
          rw [r1] at h1 g1; rw [r2] at h2 g2
          simp only [List.head?_cons, Option.some.injEq] at h1 h2
          subst h1; subst h2
          -- a writer holds the mutex exclusively
          have wr : ∀ (t : Nat) (th : Thread) (m : Nat), s.threads[t]? = some th → th.held.contains (m, true) = true →
              (s.mu m).writer = some t ∧ (s.mu m).readers = [] := by
            intro t th m h hc'
            have := hi.holds t th m true h (contains_mem hc')
            simp only [↓reduceIte] at this
            exact ⟨this, hi.excl m t this⟩
          have rd : ∀ (t : Nat) (th : Thread) (m : Nat), s.threads[t]? = some th → th.held.any (·.1 == m) = true →
              (s.mu m).writer = some t ∨ t ∈ (s.mu m).readers := by
            intro t th m h ha
            obtain ⟨w, hw⟩ := any_fst ha
            have := hi.holds t th m w h hw
            cases w with
            | true => left; simpa using this
            | false => right; simpa using this
          cases b1 with
          | lock _ _ => simp [conflict] at hc
          | unlock _ _ => simp [conflict] at hc
          | read m f =>
            cases b2 with
            | write m' f' v' =>
              simp only [conflict, Bool.and_eq_true, beq_iff_eq] at hc
              obtain ⟨em, _⟩ := hc
              subst em
              simp only [guardedFrom, Bool.and_eq_true] at g1 g2
              obtain ⟨w2, r2'⟩ := wr t2 th2 m ht2 g2.1
              rcases rd t1 th1 m ht1 g1.1 with h | h
              · rw [w2] at h; injection h with h; exact hne h.symm
              · rw [r2'] at h; cases h
            | lock _ _ => simp [conflict] at hc
            | unlock _ _ => simp [conflict] at hc
            | read _ _ => simp [conflict] at hc
          | write m f v =>
            simp only [guardedFrom, Bool.and_eq_true] at g1
            obtain ⟨w1, r1'⟩ := wr t1 th1 m ht1 g1.1
            cases b2 with
            | write m' f' v' =>
              simp only [conflict, Bool.and_eq_true, beq_iff_eq] at hc
              obtain ⟨em, _⟩ := hc
              subst em
              simp only [guardedFrom, Bool.and_eq_true] at g2
              obtain ⟨w2, _⟩ := wr t2 th2 m ht2 g2.1
              rw [w1] at w2; injection w2 with h; exact hne h
            | read m' f' =>
              simp only [conflict, Bool.and_eq_true, beq_iff_eq] at hc
              obtain ⟨em, _⟩ := hc
              subst em
              simp only [guardedFrom, Bool.and_eq_true] at g2
              rcases rd t2 th2 m ht2 g2.1 with h | h
              · rw [w1] at h; injection h with h; exact hne h
              · rw [r1'] at h; cases h
            | lock _ _ => simp [conflict] at hc
            | unlock _ _ => simp [conflict] at hc



/-- the values the programs can ever store at location `l` -/
def writesOf (progs : List (List Act)) (l : Nat × Nat) : List Nat :=
  progs.flatten.filterMap fun a => match a with
    | .write m f v => if (m, f) = l then some v else none
    | _ => none

structure MemInv (progs : List (List Act)) (mem0 : Nat × Nat → Nat) (s : State) : Prop where
  code : ∀ (t : Nat) (th : Thread), s.threads[t]? = some th → ∀ a ∈ th.rest, a ∈ progs.flatten
  vals : ∀ l, s.mem l = mem0 l ∨ s.mem l ∈ writesOf progs l

theorem step_meminv (progs : List (List Act)) (mem0 : Nat × Nat → Nat) (s s' : State) (t : Nat)
    (hi : MemInv progs mem0 s) (hs : step s t = some s') : MemInv progs mem0 s' := by
  unfold step at hs
  cases hth : s.threads[t]? with
  | none => rw [hth] at hs; cases hs
  | some th =>
    rw [hth] at hs
    simp only at hs
    cases hr : th.rest with
    | nil => rw [hr] at hs; cases hs
    | cons a r =>
      rw [hr] at hs
      simp only at hs
      have hcode := hi.code t th hth
      rw [hr] at hcode
      have code' : ∀ (h' : Held) (t' : Nat) (th' : Thread),
          (s.threads.set t { held := h', rest := r })[t']? = some th' → ∀ a ∈ th'.rest, a ∈ progs.flatten := by
        intro h' t' th' h1 b hb
        rcases getElem?_set_thread h1 with ⟨_, e, _⟩ | ⟨_, e⟩
        · subst e; exact hcode b (List.mem_cons_of_mem _ hb)
        · exact hi.code t' th' e b hb
      cases a with
      | lock m w =>
        cases w <;> simp only at hs <;> split at hs <;> first | cases hs; exact ⟨code' _, hi.vals⟩ | cases hs
      | unlock m w =>
        cases w <;> simp only at hs <;> cases hs <;> exact ⟨code' _, hi.vals⟩
      | read m f => simp only at hs; cases hs; exact ⟨code' _, hi.vals⟩
      | write m f v =>
        simp only at hs
        cases hs
        refine ⟨code' _, ?_⟩
        intro l
        by_cases e : l = (m, f)
        · right
          simp only [e, ↓reduceIte, writesOf, List.mem_filterMap]
          exact ⟨.write m f v, hcode _ (by simp), by simp⟩
        · simp only [e, ↓reduceIte]
          exact hi.vals l

theorem run_meminv (progs : List (List Act)) (mem0 : Nat × Nat → Nat) (s : State) (sched : List Nat)
    (hi : MemInv progs mem0 s) : MemInv progs mem0 (run s sched) := by
  induction sched generalizing s with
  | nil => exact hi
  | cons t ts ih =>
    simp only [run]
    cases hs : step s t with
    | none => simpa using ih s hi
    | some s' => simpa using ih s' (step_meminv progs mem0 s s' t hi hs)

theorem init_meminv (progs : List (List Act)) (mem0 : Nat × Nat → Nat) : MemInv progs mem0 (init progs mem0) := by
  refine ⟨?_, fun l => Or.inl rfl⟩
  intro t th h a ha
  simp only [init, List.getElem?_map, Option.map_eq_some_iff] at h
  obtain ⟨p, hp, e⟩ := h
  subst e
  exact List.mem_flatten.mpr ⟨p, List.mem_of_getElem? hp, ha⟩

end GoBT.Conc
