import GoBT.Driver.Proto
import GoBT.Script.Parse
import GoBT.Script.Asm
namespace GoBT.Driver
open GoBT GoBT.Script

abbrev Answer13 := String × String

def parseItems? (s : String) : Option (List Bytes) :=
  if s == "-" then some [] else (s.splitOn ",").mapM fun t => if t == "e" then some [] else hexDec t

def showItems (l : List Bytes) : String :=
  if l.isEmpty then "-" else ",".intercalate (l.map fun b => if b.isEmpty then "e" else hexEnc b)

def showPOp (o : POp) : String := s!"{o.op.toNat}:{o.len}:{hexEnc o.data}"

def showOps (l : List POp) : String := ";".intercalate (l.map showPOp)

/-- `C13.enc <items>`: EncodeParts then DecodeParts. impl: `ok <hex> back=<ok|err>:<items>` | `err` -/
def c13Enc (args : List String) (impl : String) : Answer13 :=
  match args with
  | [its] =>
    match parseItems? its with
    | none => ("bad-op", "n/a")
    | some items =>
      match encodeParts items with
      | none => ("err", if impl == "err" then "true" else "false")
      | some enc =>
        let (back, ok) := decodeParts enc
        let model := s!"ok {hexEnc enc} back={if ok then "ok" else "err"}:{showItems back}"
        -- property: non-empty items come back unchanged, and every prefix is the shortest form
        let nonEmpty := items.all (fun i => !i.isEmpty)
        let f := impl.splitOn " "
        let pred :=
          if impl.startsWith "panic" then "false:panic"
          else if nonEmpty then
            (if fieldD f "back" == "ok:" ++ showItems items then
               (match f with
                | _ :: hx :: _ =>
                  (match hexDec hx with
                   | some e => if e.length == (items.map fun i => i.length + (if i.length ≤ 75 then 1 else if i.length ≤ 255 then 2 else if i.length ≤ 65535 then 3 else 5)).sum
                               then "true" else "false:not-shortest-form"
                   | none => "false:not-hex")
                | _ => "false:shape")
             else "false:roundtrip")
          else "true"
        (model, pred)
  | _ => ("bad-op", "n/a")

/-- `C13.tok <hex>`: both tokenisers on the same script.
    impl: `p=<ok:ops|err> un=<hex|-> d=<ok|err>:<parts>` -/
def c13Tok (args : List String) (impl : String) : Answer13 :=
  match args with
  | [hx] =>
    match hexDec hx with
    | none => ("bad-op", "n/a")
    | some s =>
      let (parts, dok) := decodeParts s
      let (pstr, un, ops?) := match parseScript s with
        | .ok ops => (s!"ok:{showOps ops}", (match unparse ops with | .ok b => hexEnc b | .error _ => "err"), some ops)
        | .error _ => ("err", "-", none)
      let model := s!"p={pstr} un={un} d={if dok then "ok" else "err"}:{showItems parts}"
      -- predicate on the implementation's own answers
      let f := impl.splitOn " "
      let ip := fieldD f "p"
      let iun := fieldD f "un"
      let id := fieldD f "d"
      let pred :=
        if impl.startsWith "panic" then "false:panic"
        else if ip.startsWith "ok" && iun != hexEnc s then "false:unparse-differs"
        else if !s.contains opRETURN then
          -- no OP_RETURN byte at all: the tokenisers must agree on acceptance and on every push boundary
          (let implParts := if ip.startsWith "ok:" then
              some (((ip.drop 3).toString.splitOn ";").filter (· != "") |>.map fun t =>
                match t.splitOn ":" with
                | [o, _, d] => (match o.toNat? with
                    | some n => if 1 ≤ n && n ≤ 0x4e then (if d == "" then "e" else d) else hexEnc [UInt8.ofNat n]
                    | none => "?")
                | _ => "?")
            else none
           match implParts with
           | some ps =>
             let want := "ok:" ++ (if ps.isEmpty then "-" else ",".intercalate ps)
             if id == want then "true" else "false:tokenisers-disagree"
           | none => if id.startsWith "err" then "true" else "false:tokenisers-disagree-on-error")
        else "true"
      let _ := ops?
      (model, pred)
  | _ => ("bad-op", "n/a")

/-- `C13.asm <hex>`: ToASM then NewFromASM. impl: `asm=<tokens joined by |> back=<hex|err>` -/
def c13Asm (args : List String) (impl : String) : Answer13 :=
  match args with
  | [hx] =>
    match hexDec hx with
    | none => ("bad-op", "n/a")
    | some s =>
      let toks := match toAsmTokens s with | none => [""] | some t => t
      let asm := "|".intercalate toks
      let back := match fromAsmTokens toks with | some b => hexEnc b | none => "err"
      let model := s!"asm={asm} back={back}"
      -- property: for a non-data script built from named non-push opcodes and minimal multi-byte pushes
      -- the rendering converts back to the original bytes
      let eligible := !isDataScript s && !(s.headD 0 == opRETURN) &&
        (match parseScript s with
         | .ok ops => ops.all fun o =>
             if 1 ≤ o.op.toNat && o.op.toNat ≤ 0x4e then
               o.data.length ≥ 2 && (pushPrefix o.data.length).map (·.headD 0) == some o.op
             else opName o.op != "" && o.op != 0x6a
         | .error _ => false)
      let f := impl.splitOn " "
      let pred := if impl.startsWith "panic" then "false:panic"
        else if eligible then (if fieldD f "back" == hexEnc s then "true" else "false:asm-roundtrip") else "true"
      (model, pred)
  | _ => ("bad-op", "n/a")

/-- `C13.hexjson <hex>`: String/NewFromHexString and MarshalJSON/UnmarshalJSON. impl: `<hex> <json> back=<hex> jback=<hex>` -/
def c13HexJson (args : List String) (impl : String) : Answer13 :=
  match args with
  | [hx] =>
    match hexDec hx with
    | none => ("bad-op", "n/a")
    | some s =>
      let h := hexEnc s
      let model := s!"{h} \"{h}\" back={h} jback={h}"
      (model, if impl == model then "true" else "false:hex-json-roundtrip")
  | _ => ("bad-op", "n/a")

/-- `C13.minpush <hex>` -/
def c13MinPush (args : List String) (impl : String) : Answer13 :=
  match args with
  | [hx] =>
    match hexDec (if hx == "e" then "" else hx) with
    | none => ("bad-op", "n/a")
    | some s => (toString (minPushSize s), "true")
  | _ => ("bad-op", "n/a")

end GoBT.Driver
