import GoBT.Driver.Proto
import GoBT.Crypto.Sha256
namespace GoBT.Driver
open GoBT

/-- every handler returns (model output, predicate verdict on the implementation's output). -/
abbrev Answer := String × String

/-- TxIDBytes -/
def txid (tx : Tx) : Bytes := (Crypto.sha256d (serialize false tx)).reverse

def showParsed (bs : Bytes) (r : Rd Parsed) : String :=
  match r with
  | .ok p rest => s!"ok n={consumed bs rest} tx={showTx p.tx} re={hexEnc (serialize false p.tx)} rex={hexEnc (serialize true p.tx)}"
  | .err n => s!"err n={n}"

/-- C01/C09 `parse <hex>`: implementation answered `ok n=… fmt=… tx=… re=<hex>` | `err n=…` | `panic …`.
    Predicate (property text): consumed ≤ supplied; on success the transaction re-serialises,
    in the format it arrived in, to exactly the consumed bytes whenever every length prefix is minimal. -/
def c01Parse (args : List String) (impl : String) : Answer :=
  match args with
  | [hx] =>
    match hexDec hx with
    | none => ("bad-op", "n/a")
    | some bs =>
      let r := parse bs
      let model := showParsed bs r
      let f := impl.splitOn " "
      let pred :=
        if impl.startsWith "panic" then "false:panic"
        else match (fieldD f "n").toNat? with
          | none => "false:no-count"
          | some n =>
            if n > bs.length then "false:consumed>supplied"
            else if impl.startsWith "ok" then
              let minimal := match r with | .ok p _ => p.minimal | .err _ => false
              let isExt := match r with | .ok p _ => p.fmt.isExt | .err _ => false
              -- "consumed to exactly the end of the transaction": the count is where the (proved) parser stops
              let endOfTx := match r with | .ok _ rest => some (bs.length - rest.length) | .err _ => none
              if endOfTx.isSome && endOfTx != some n then "false:consumed-is-not-the-end-of-the-transaction" else
              match hexDec (fieldD f (if isExt then "rex" else "re") "zz") with
              | none => "false:no-reserialisation"
              | some re =>
                if minimal && re != bs.take n then "false:reserialisation-differs" else "true"
            else "true"
      (model, pred)
  | _ => ("bad-op", "n/a")

/-- `ser <txdesc>`: implementation answered `<hex std> <hex ext>`.
    Predicate: parsing each serialisation back (with the model's parser) recovers every field. -/
def c01Ser (args : List String) (impl : String) : Answer :=
  match args with
  | [d] =>
    match parseTx? d with
    | none => ("bad-op", "n/a")
    | some tx =>
      let model := s!"{hexEnc (serialize false tx)} {hexEnc (serialize true tx)}"
      let pred :=
        match impl.splitOn " " with
        | [hs, he] =>
          match hexDec hs, hexDec he with
          | some bs, some be =>
            let okStd := decide tx.ambiguous ||
              (match parse bs with | .ok p [] => p.tx == tx.norm false && p.fmt == .std | _ => false)
            let okExt := match parse be with | .ok p [] => p.tx == tx.norm true && p.fmt == .ext | _ => false
            if okStd && okExt then "true" else s!"false:roundtrip std={okStd} ext={okExt}"
          | _, _ => "false:not-hex"
        | _ => if impl.startsWith "panic" then "false:panic" else "false:shape"
      (model, pred)
  | _ => ("bad-op", "n/a")

/-- `txs <hex>`: counted list. implementation: `ok n=<k> c=<count>` | `err n=<k>` -/
def c01Txs (args : List String) (impl : String) : Answer :=
  match args with
  | [hx] =>
    match hexDec hx with
    | none => ("bad-op", "n/a")
    | some bs =>
      let model := match parseTxs bs with
        | .ok ps rest => s!"ok n={consumed bs rest} c={ps.length} ids={",".intercalate ((ps.take 3).map fun p => hexEnc (txid p.tx))}"
        | .err n => s!"err n={n}"
      let f := impl.splitOn " "
      let pred :=
        if impl.startsWith "panic" then "false:panic"
        else match (fieldD f "n").toNat? with
          | none => "false:no-count"
          | some n =>
            if n > bs.length then "false:consumed>supplied"
            -- an accepted list is consumed to exactly the end of its last transaction and holds as many as announced
            else if impl.startsWith "ok" && model.startsWith "ok" &&
                (fieldD f "n" != fieldD (model.splitOn " ") "n" || fieldD f "c" != fieldD (model.splitOn " ") "c") then
              "false:list-not-consumed-to-the-end-of-its-last-transaction"
            else "true"
      (model, pred)
  | _ => ("bad-op", "n/a")

/-- `clone <txdesc>`: implementation: `<hex ext of clone>` -/
def c01Clone (args : List String) (impl : String) : Answer :=
  match args with
  | [d] =>
    match parseTx? d with
    | none => ("bad-op", "n/a")
    | some tx =>
      let model := if decide tx.ambiguous then "skipped-ambiguous" else match clone tx with
        | some c => hexEnc (serialize true c)
        | none => "fatal"
      (model, if impl == hexEnc (serialize true (tx.norm true)) || decide tx.ambiguous then "true" else "false:clone-differs")
  | _ => ("bad-op", "n/a")

/-- `exact <hex>`: NewTxFromBytes. implementation: `ok tx=…` | `err` -/
def c01Exact (args : List String) (impl : String) : Answer :=
  match args with
  | [hx] =>
    match hexDec hx with
    | none => ("bad-op", "n/a")
    | some bs =>
      let model := match parseExact bs with
        | some p => s!"ok tx={showTx p.tx}"
        | none => "err"
      -- property: accepted ⇒ consumed to exactly the end
      let pred := if impl.startsWith "panic" then "false:panic"
        else if impl.startsWith "ok" then
          (match parse bs with | .ok _ [] => "true" | _ => "false:accepted-with-trailing-bytes")
        else "true"
      (model, pred)
  | _ => ("bad-op", "n/a")

def streamNs (fuel : Nat) (bs : Bytes) (acc : List String) : List String :=
  match fuel with
  | 0 => acc.reverse
  | fuel + 1 =>
    if bs.isEmpty then acc.reverse else
    match parse bs with
    | .err _ => ("err" :: acc).reverse
    | .ok _ rest =>
      let n := consumed bs rest
      if n = 0 then (toString n :: acc).reverse else streamNs fuel rest (toString n :: acc)

/-- `stream <hex>`: repeated NewTxFromStream. implementation: `ns=<n1>,<n2>,…[,err]` -/
def c01Stream (args : List String) (impl : String) : Answer :=
  match args with
  | [hx] =>
    match hexDec hx with
    | none => ("bad-op", "n/a")
    | some bs =>
      let model := "ns=" ++ ",".intercalate (streamNs (bs.length + 1) bs [])
      (model, if impl.startsWith "panic" then "false:panic"
              else if impl.endsWith "reused-receiver-differs" then "false:parse-into-a-reused-receiver-differs-from-a-fresh-parse"
              else "true")
  | _ => ("bad-op", "n/a")

/-- `txid <txdesc>`: implementation `<hex string> <hex of TxIDBytes>`;
    predicate: both are the byte-reversed double SHA-256 of the standard serialisation. -/
def c01Txid (args : List String) (impl : String) : Answer :=
  match args with
  | [d] =>
    match parseTx? d with
    | none => ("bad-op", "n/a")
    | some tx =>
      let id := hexEnc (txid tx)
      let model := s!"{id} {id}"
      (model, if impl == model then "true" else "false:txid")
  | _ => ("bad-op", "n/a")

end GoBT.Driver
