import GoBT.Driver.Proto
import GoBT.Script.Classify
import GoBT.Script.Asm
namespace GoBT.Driver
open GoBT GoBT.Script

def showChkB : Chk Bool → String
  | none => "PANIC" | some true => "1" | some false => "0"

/-! exact template recognisers used by the predicate (independent of the classifier model) -/

def keyPush? (s : Bytes) : Option (Bytes × Bytes) :=
  match s with
  | 0x21 :: r => if r.length ≥ 33 && (r.headD 0 == 2 || r.headD 0 == 3) then some (r.take 33, r.drop 33) else none
  | 0x41 :: r => if r.length ≥ 65 && (r.headD 0 == 4 || r.headD 0 == 6 || r.headD 0 == 7) then some (r.take 65, r.drop 65) else none
  | _ => none

def tmplP2PK (s : Bytes) : Bool :=
  match keyPush? s with | some (_, [0xac]) => true | _ => false

def keyPushes (fuel : Nat) (s : Bytes) (n : Nat) : Option (Nat × Bytes) :=
  match fuel with
  | 0 => some (n, s)
  | fuel + 1 => match keyPush? s with
    | some (_, r) => keyPushes fuel r (n + 1)
    | none => some (n, s)

def smallInt? (b : UInt8) : Option Nat :=
  if b == 0 then some 0 else if 0x51 ≤ b.toNat && b.toNat ≤ 0x60 then some (b.toNat - 0x50) else none

/-- bare m-of-n multisig: OP_m <n keys> OP_n OP_CHECKMULTISIG with 1 ≤ n, m ≤ n -/
def tmplMultisig (s : Bytes) : Bool :=
  match s with
  | m :: r =>
    match smallInt? m, keyPushes 21 r 0 with
    | some mv, some (n, [nb, 0xae]) => n ≥ 1 && smallInt? nb == some n && mv ≤ n
    | _, _ => false
  | [] => false

def tmplData (s : Bytes) : Bool :=
  match s with
  | 0x6a :: _ => true
  | 0x00 :: 0x6a :: _ => true
  | _ => false

/-- minimal single push at the head of `s` -/
def onePush? (s : Bytes) : Option (Bytes × Bytes) :=
  match s with
  | [] => none
  | b :: r =>
    match decodeStep b r with
    | some (p, r') => if 1 ≤ b.toNat && b.toNat ≤ 0x4e && p.length ≥ 1 then some (p, r') else none
    | none => none

/-- P2PKH + inscription envelope: <25-byte p2pkh> 00 63 03 'ord' 51 <push ct> 00 <push data> 68 [6a …] -/
def tmplInscription (s : Bytes) : Bool :=
  isP2PKH (s.take 25) &&
  (match s.drop 25 with
   | 0x00 :: 0x63 :: 0x03 :: 0x6f :: 0x72 :: 0x64 :: 0x51 :: r =>
     (match onePush? r with
      | some (_, 0x00 :: r2) =>
        (match onePush? r2 with
         | some (_, [0x68]) => true
         | some (_, 0x68 :: 0x6a :: tail) => (decodeParts tail).2   -- the suffix must itself be well-formed pushes
         | _ => false)
      | _ => false)
   | _ => false)

/-- `C14.inspect <hex>`; impl/model format:
    `type=… p2pkh=… p2pk=… p2sh=… ms=… data=… insc=… pkh=… asm=… pi=… addrs=… json=…` -/
def c14Inspect (args : List String) (impl : String) : String × String :=
  match args with
  | [hx] =>
    match hexDec (if hx == "e" then "" else hx) with
    | none => ("bad-op", "n/a")
    | some s =>
      let ty := match scriptType s with | none => "PANIC" | some t => t.name
      let pkh := match publicKeyHash s with
        | none => "PANIC" | some (.ok h) => "ok:" ++ hexEnc h | some .errEmpty => "err-empty"
        | some .errNotP2PKH => "err-notp2pkh" | some .errDecode => "err-decode"
      let pi := match parseInscription s with
        | none => "PANIC" | some (.ok p c d) => s!"ok:{hexEnc p}:{hexEnc c}:{hexEnc d}"
        | some .errDecode => "err-decode" | some .errNotFound => "err-notfound"
      let asm := match toAsmTokens s with | none => "" | some t => "|".intercalate t
      let addrs := if isP2PKH s then "1" else "0"
      let json := match scriptType s with | none => "PANIC" | some _ => "ok"
      let model := s!"type={ty} p2pkh={if isP2PKH s then "1" else "0"} p2pk={showChkB (isP2PK s)} p2sh={if isP2SH s then "1" else "0"} ms={showChkB (isMultiSigOut s)} data={if isData s then "1" else "0"} insc={showChkB (isP2PKHInscription s)} pkh={pkh} asm={asm} pi={pi} addrs={addrs} json={json} inscd={if isInscribed s then "1" else "0"}"
      -- predicate on the implementation's answers
      let f := impl.splitOn " "
      let ity := fieldD f "type"
      let (_, dok) := decodeParts s
      let want : Option String :=
        if isP2PKH s then some "pubkeyhash" else if tmplP2PK s then some "pubkey"
        else if tmplMultisig s then some "multisig" else if tmplData s then some "nulldata"
        else if tmplInscription s then some "pubkeyhashinscription" else none
      let pred :=
        if impl.contains "PANIC" || impl.startsWith "panic" then "false:panic"
        else if (match want with | some w => ity != w | none => false) then s!"false:template-misclassified want={want.getD ""}"
        else if ity == "pubkeyhash" && !isP2PKH s then "false:p2pkh-not-template"
        else if ity == "nulldata" && !tmplData s then "false:data-without-prefix"
        else if !dok && (ity == "pubkey" || ity == "multisig" || ity == "pubkeyhashinscription" || ity == "pubkeyhash") then "false:undecodable-keybearing"
        else "true"
      (model, pred)
  | _ => ("bad-op", "n/a")

end GoBT.Driver
