/-
  Driver glue for the output constructors of txoutput.go (ops C15.out, C14.opret, C14.puzzle, C01.misc).
  Trusted (not verified) glue around GoBT.Script.Build, GoBT.Addr.Address and GoBT.Script.Classify.
-/
import GoBT.Driver.Proto
import GoBT.Driver.C14
import GoBT.Addr.Address
import GoBT.Crypto.Hash
import GoBT.Script.Build
import GoBT.Script.Classify
namespace GoBT.Driver
open GoBT GoBT.Script

def hexE0 (b : Bytes) : String := if b.isEmpty then "e" else hexEnc b

def partsArg? (s : String) : Option (List Bytes) :=
  if s == "-" then some []
  else (splitOn1 s ',').mapM fun h => if h == "e" then some [] else hexDec h

/-- `C15.out <pubkey hex> <mainnet> <sats>` -/
def c15Out (args : List String) (impl : String) : String × String :=
  match args with
  | [pk, _, sats] =>
    match hexDec pk, sats.toNat? with
    | some key, some n =>
      if key.length != 33 then ("err-script", "n/a") else
      let sc := GoBT.Addr.p2pkhScript (Crypto.hash160 key)
      let outs := (List.range 7).map fun i => s!"{(n + i) % 2 ^ 64}:{hexEnc sc}"
      let total := ((List.range 7).foldl (fun acc i => acc + (n + i) % 2 ^ 64) 0) % 2 ^ 64
      let model := s!"errs=0000000 outs={",".intercalate outs} rej=111 total={total}"
      -- every transaction-level constructor yields the canonical script; non-templates are refused
      let f := impl.splitOn " "
      let iouts := (fieldD f "outs").splitOn ","
      let pred :=
        if impl.contains "PANIC" then "false:panic"
        else if fieldD f "errs" != "0000000" then "false:constructor-refused-valid-key"
        else if iouts.length != 7 || iouts.any (fun o => (o.splitOn ":").getD 1 "" != hexEnc sc) then "false:not-canonical-script"
        else if fieldD f "rej" != "111" then "false:non-template-accepted-or-buffer-changed"
        else "true"
      (model, pred)
    | _, _ => ("bad-op", "n/a")
  | _ => ("bad-op", "n/a")

/-- `C14.opret <parts>` -/
def c14OpRet (args : List String) (impl : String) : String × String :=
  match args with
  | [ps] =>
    match partsArg? ps with
    | none => ("bad-op", "n/a")
    | some parts =>
      match opReturnScript parts with
      | none => ("err-create", "n/a")
      | some s =>
        let ty := match scriptType s with | none => "PANIC" | some t => t.name
        let (dp, ok) := decodeParts s
        let dec := if ok then ",".intercalate (dp.map hexE0) else "err"
        let single := if parts.length == 1 then hexE0 s else "n/a"
        let model := s!"script={hexE0 s} parts={hexE0 s} single={single} strs={hexE0 s} sats=0 type={ty} data={if isData s then "1" else "0"} has={if isData s then "1" else "0"} hasnot=0 dec={dec} eq=1"
        let f := impl.splitOn " "
        let pred :=
          if impl.contains "PANIC" || impl.startsWith "panic" then "false:panic"
          else if fieldD f "type" != "nulldata" || fieldD f "data" != "1" || fieldD f "has" != "1" then "false:data-template-misclassified"
          else if !tmplData s then "false:model-script-not-template"
          -- C14.opreturn_output_parts on the implementation's own answer: non-empty items come back after OP_FALSE OP_RETURN
          else if parts.all (fun p => !p.isEmpty) && fieldD f "dec" != ",".intercalate ("00" :: "6a" :: parts.map hexE0) then "false:items-not-recoverable"
          else if fieldD f "script" != fieldD f "parts" || fieldD f "script" != fieldD f "strs" ||
                  (fieldD f "single" != "n/a" && fieldD f "single" != fieldD f "script") then "false:entry-points-disagree"
          else "true"
        (model, pred)
  | _ => ("bad-op", "n/a")

/-- `C14.puzzle <secret hex> <pkh hex> <sats>` -/
def c14Puzzle (args : List String) (impl : String) : String × String :=
  match args with
  | [sec, pkh, sats] =>
    match hexDec (if sec == "e" then "" else sec), sats.toNat? with
    | some secret, some n =>
      match hexDec (if pkh == "e" then "" else pkh) with
      | none => ("err", if impl.contains "PANIC" || impl.startsWith "panic" then "false:panic" else "true")
      | some h =>
        match hashPuzzleScript (Crypto.hash160 secret) h with
        | none => ("err", "n/a")
        | some s =>
          let ty := match scriptType s with | none => "PANIC" | some t => t.name
          (s!"script={hexE0 s} sats={n} type={ty} n=1",
           if impl.contains "PANIC" || impl.startsWith "panic" then "false:panic" else "true")
    | _, _ => ("bad-op", "n/a")
  | _ => ("bad-op", "n/a")

/-- `C01.misc <txdesc> <index> <script hex|-|e>` -/
def c01Misc (args : List String) (impl : String) : String × String :=
  match args with
  | [d, idx, ls] =>
    match parseTx? d, idx.toNat? with
    | some tx, some i =>
      let lso : Option (Option Bytes) := if ls == "-" then some none else if ls == "e" then some (some []) else (hexDec ls).map some
      match lso with
      | none => ("bad-op", "n/a")
      | some l =>
        let b := fun (x : Bool) => if x then "1" else "0"
        let cleared := bytesWithClearedInputs i l tx
        (s!"cb={b (isCoinbase tx)} in={b (i < tx.inputs.length)} out={b (i < tx.outputs.length)} cleared={hexEnc cleared} nin={tx.inputs.length} nout={tx.outputs.length}",
         if impl.contains "PANIC" || impl.startsWith "panic" then "false:panic" else "true")
    | _, _ => ("bad-op", "n/a")
  | _ => ("bad-op", "n/a")

end GoBT.Driver
