import GoBT.Driver.C01
import GoBT.Sighash.Model
namespace GoBT.Driver
open GoBT GoBT.Sighash

def showErr : Err → String
  | .noInput => "noinput"
  | .noTxID => "notxid"
  | .noScript => "noscript"

def showPre (pre : Except Err Bytes) (dig : Except Err Bytes) : String :=
  match pre, dig with
  | .ok p, .ok d => s!"ok {hexEnc p} {hexEnc d} mut=0"
  | .error e, _ => s!"err {showErr e}"
  | _, .error e => s!"err {showErr e}"

/-- `C02.pre <txdesc> <idx> <flag>`: CalcInputPreimage + CalcInputSignatureHash.
    Predicate: the implementation's preimage is the specification's ten-item preimage, its digest is
    the double SHA-256 of that, the three error cases are errors, the transaction is unchanged. -/
def c02Pre (args : List String) (impl : String) : Answer :=
  match args with
  | [d, idx, flag] =>
    match parseTx? d, idx.toNat?, flag.toNat? with
    | some tx, some idx, some flag =>
      let H := Crypto.sha256d
      let pre := preimageForkID H tx idx flag
      let dig := signatureHash H tx idx flag
      let model := showPre pre dig
      let specOut : String :=
        match tx.inputs[idx]? with
        | none => "err"
        | some i =>
          if i.prevTxID.length = 0 then "err" else
          match i.prevScript with
          | none => "err"
          | some sc =>
            let sp := bip143Spec H tx idx flag sc i.prevSats
            s!"ok {hexEnc sp} {hexEnc (H sp)} mut=0"
      let pred :=
        if impl.startsWith "panic" then "false:panic"
        else if specOut == "err" then (if impl.startsWith "err" then "true" else "false:error-not-reported")
        else if impl == specOut then "true" else "false:differs-from-spec"
      (model, pred)
    | _, _, _ => ("bad-op", "n/a")
  | _ => ("bad-op", "n/a")

/-- `C03.pre <txdesc> <idx> <flag>`: CalcInputPreimageLegacy + CalcInputSignatureHash. -/
def c03Pre (args : List String) (impl : String) : Answer :=
  match args with
  | [d, idx, flag] =>
    match parseTx? d, idx.toNat?, flag.toNat? with
    | some tx, some idx, some flag =>
      let H := Crypto.sha256d
      let pre := preimageLegacy tx idx flag
      let dig := signatureHash H tx idx flag
      let model := showPre pre dig
      let specOut : String :=
        match tx.inputs[idx]? with
        | none => "err"
        | some i =>
          if i.prevTxID.length = 0 then "err" else
          match i.prevScript with
          | none => "err"
          | some sc =>
            if flag &&& 0x1f = 3 ∧ tx.outputs.length ≤ idx then
              s!"ok {hexEnc one256} {hexEnc one256} mut=0"
            else
              let sp := satoshiSpec tx idx flag sc
              s!"ok {hexEnc sp} {hexEnc (H sp)} mut=0"
      let pred :=
        if impl.startsWith "panic" then "false:panic"
        else if specOut == "err" then (if impl.startsWith "err" then "true" else "false:error-not-reported")
        else if impl == specOut then "true" else "false:differs-from-spec"
      (model, pred)
    | _, _, _ => ("bad-op", "n/a")
  | _ => ("bad-op", "n/a")

def toU32 (s : String) : Option Nat :=
  if s.startsWith "-" then (s.drop 1).toString.toNat?.map (fun n => 2 ^ 32 - n) else s.toNat?

/-- strip OP_CODESEPARATOR opcodes from a script (the caller's job in go-bt; done by the node
    inside its legacy SignatureHash) -- walks the pushes so that 0xab inside data is kept -/
def stripCodeSep (fuel : Nat) (s : Bytes) : Bytes :=
  match fuel with
  | 0 => s
  | fuel + 1 =>
    match s with
    | [] => []
    | op :: rest =>
      let n := op.toNat
      if n == 0xab then stripCodeSep fuel rest
      else if 1 ≤ n && n ≤ 75 then op :: rest.take n ++ stripCodeSep fuel (rest.drop n)
      else if n == 76 then
        match rest with
        | l :: r => op :: l :: r.take l.toNat ++ stripCodeSep fuel (r.drop l.toNat)
        | [] => [op]
      else if n == 77 then
        let l := leDec (rest.take 2)
        op :: rest.take (2 + l) ++ stripCodeSep fuel (rest.drop (2 + l))
      else if n == 78 then
        let l := leDec (rest.take 4)
        op :: rest.take (4 + l) ++ stripCodeSep fuel (rest.drop (4 + l))
      else op :: stripCodeSep fuel rest

/-- `SH.vec <bip143|legacy> <rawtx> <script|-> <idx> <hashType> `, implementation column = the node's
    expected digest from the shipped vector file.  Validates the *specification* functions. -/
def shVec (args : List String) (impl : String) : Answer :=
  match args with
  | [kind, raw, sc, idx, ht, _] =>
    match hexDec raw, hexDec (if sc == "-" then "" else sc), idx.toNat?, toU32 ht with
    | some raw, some sc, some idx, some ht =>
      match parse raw with
      | .ok p [] =>
        let H := Crypto.sha256d
        let dig :=
          if kind == "bip143" then H (bip143Spec H p.tx idx ht sc 0)
          else if ht &&& 0x1f = 3 ∧ p.tx.outputs.length ≤ idx then one256
          else H (satoshiSpec p.tx idx ht (stripCodeSep (sc.length + 1) sc))
        let model := hexEnc dig.reverse
        (model, if model == impl then "true" else "false:spec-differs-from-node-vector")
      | _ => ("unparsable", "false:vector-tx-unparsable")
    | _, _, _, _ => ("bad-op", "n/a")
  | _ => ("bad-op", "n/a")

end GoBT.Driver
