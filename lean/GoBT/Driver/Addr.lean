import GoBT.Driver.Proto
import GoBT.Addr.Address
import GoBT.Addr.Bip276
import GoBT.Crypto.Hash
namespace GoBT.Driver
open GoBT GoBT.Addr

def strOfHex? (h : String) : Option (List Char) :=
  (hexDec (if h == "e" then "" else h)).map fun bs => bs.map fun b => Char.ofNat b.toNat

def hexOfStr (s : List Char) : String :=
  let h := hexEnc (s.map fun c => UInt8.ofNat c.toNat)
  if h.isEmpty then "e" else h

def H256d : Bytes → Bytes := Crypto.sha256d

/-- independent statement of "well-formed Base58Check of the right length, supported version, correct checksum" -/
def isBase58Check (s : List Char) : Bool :=
  let d := b58dec s
  d.length == 25 && (d.headD 1 == 0x00 || d.headD 1 == 0x6f) &&
  d.drop 21 == (H256d (d.take 21)).take 4 && b58enc d == s

def showEA {α} (f : α → String) : Except AErr α → String
  | .ok a => "ok:" ++ f a
  | .error _ => "err"

/-- `C15.str <hex(string)>` -/
def c15Str (args : List String) (impl : String) : String × String :=
  match args with
  | [h] =>
    match strOfHex? h with
    | none => ("bad-op", "n/a")
    | some s =>
      let nw := addressToPKH H256d s
      let p2 := p2pkhFromAddress H256d s
      let valid := match validA58 H256d s with | .ok _ => "1" | .error _ => "0"
      let model := s!"new={showEA hexEnc nw} valid={valid} p2pkh={showEA hexEnc p2} pay={showEA hexEnc p2} change={match p2 with | .ok _ => "ok" | .error _ => "err"}"
      let f := impl.splitOn " "
      let accepted := (fieldD f "new").startsWith "ok" || fieldD f "valid" == "1" || (fieldD f "p2pkh").startsWith "ok" ||
        (fieldD f "pay").startsWith "ok" || fieldD f "change" == "ok"
      let d := b58dec s
      let onlyChecksumWrong := d.length == 25 && (d.headD 1 == 0x00 || d.headD 1 == 0x6f) && b58enc d == s &&
        d.drop 21 != (H256d (d.take 21)).take 4
      let pred := if impl.contains "PANIC" then "false:panic"
        else if fieldD f "valid" == "1" && !isBase58Check s then "false:validate-accepts-non-base58check"
        else if accepted && !isBase58Check s then
          (if onlyChecksumWrong then "false:address-with-wrong-checksum-accepted-for-building-scripts"
           else "false:malformed-address-accepted-for-building-scripts")
        -- every well-formed address is the address of some key hash: it validates, decodes to that hash and builds
        -- the canonical script
        else if isBase58Check s && fieldD f "valid" != "1" then "false:well-formed-address-does-not-validate"
        else if isBase58Check s && (fieldD f "new" != showEA hexEnc nw || fieldD f "p2pkh" != showEA hexEnc p2 ||
            fieldD f "pay" != showEA hexEnc p2 || fieldD f "change" != "ok") then "false:well-formed-address-not-decoded-to-its-hash"
        else "true"
      (model, pred)
  | _ => ("bad-op", "n/a")

/-- `C15.key <pubkey hex> <mainnet>` -/
def c15Key (args : List String) (impl : String) : String × String :=
  match args with
  | [pk, mn] =>
    match hexDec pk with
    | none => ("bad-op", "n/a")
    | some key =>
      let mainnet := mn == "1"
      let h := Crypto.hash160 key
      let addr := encodeAddress H256d mainnet h
      let sc := p2pkhScript h
      let f0 := impl.splitOn " "
      -- the key-object routes exist only for points on the curve (the harness says n/a otherwise); when present they
      -- must give the same address and script
      let ecA := if fieldD f0 "aec" == "n/a" then "n/a" else hexOfStr addr
      let ecS := if fieldD f0 "sec" == "n/a" then "n/a" else hexEnc sc
      let model := s!"addr={hexOfStr addr} pkh={hexEnc h} s1={hexEnc sc} s2={hexEnc sc} s3={hexEnc sc} back={hexEnc h} addrs={hexOfStr (encodeAddress H256d true h)} new={hexEnc h} valid=1 aec={ecA} sec={ecS}"
      -- coherence: every constructor yields the same canonical 25-byte script; hash and address are recovered
      let f := impl.splitOn " "
      let pred := if impl.contains "PANIC" then "false:panic"
        else if !(fieldD f "s1" == fieldD f "s2" && fieldD f "s2" == fieldD f "s3") then "false:constructors-disagree"
        else if fieldD f "s1" != hexEnc sc then "false:not-canonical-script"
        else if fieldD f "back" != fieldD f "pkh" || fieldD f "new" != fieldD f "pkh" then "false:hash-not-recovered"
        else if fieldD f "valid" != "1" then "false:own-address-does-not-validate"
        else if fieldD f "aec" != ecA || fieldD f "sec" != ecS then "false:key-object-route-disagrees"
        else "true"
      (model, pred)
  | _ => ("bad-op", "n/a")

def showBip (b : Bip276) : String := s!"{hexOfStr b.pfx}:{b.version}:{b.network}:{if b.data.isEmpty then "e" else hexEnc b.data}"

/-- `C17.rt <hex(prefix)> <version> <network> <data hex>` -/
def c17Rt (args : List String) (impl : String) : String × String :=
  match args with
  | [p, v, n, d] =>
    match strOfHex? p, v.toNat?, n.toNat?, hexDec (if d == "e" then "" else d) with
    | some pfx, some v, some n, some d =>
      let b : Bip276 := { pfx := pfx, version := v, network := n, data := d }
      match encodeBip276 H256d b with
      | none => ("enc=ERROR", if impl == "enc=ERROR" then "true" else "false:out-of-range-not-rejected")
      | some txt =>
        let dec := match decodeBip276 H256d txt with | .ok b' => "ok:" ++ showBip b' | .error _ => "err"
        let isScript := pfx == "bitcoin-script".toList
        let model := s!"enc={hexOfStr txt} dec={dec} valid={if isScript then (if dec.startsWith "ok" then "1" else "0") else "n/a"}"
        -- layout from the BIP: prefix ':' 2 hex version 2 hex network hex data 8 hex checksum
        let f := impl.splitOn " "
        let layout := pfx ++ [':'] ++ hex2 v ++ hex2 n ++ hexChars d   -- the BIP's order: version, network
        let want := layout ++ hexChars ((H256d (layout.map fun c => UInt8.ofNat c.toNat)).take 4)
        let pred := if impl.contains "PANIC" then "false:panic"
          else if fieldD f "enc" != hexOfStr want then
            (if fieldD f "enc" == hexOfStr txt && v != n then "false:layout-network-before-version" else "false:layout")
          else if fieldD f "dec" != "ok:" ++ showBip b then "false:roundtrip"
          else if isScript && fieldD f "valid" != "1" then "false:validate-rejects-own-encoding"
          else "true"
        (model, pred)
    | _, _, _, _ => ("bad-op", "n/a")
  | _ => ("bad-op", "n/a")

/-- `C17.dec <hex(text)>`: arbitrary / corrupted text -/
def c17Dec (args : List String) (impl : String) : String × String :=
  match args with
  | [t] =>
    match strOfHex? t with
    | none => ("bad-op", "n/a")
    | some txt =>
      let r := decodeBip276 H256d txt
      let dec := match r with | .ok b' => "ok:" ++ showBip b' | .error _ => "err"
      let isScript := "bitcoin-script:".toList.isPrefixOf txt
      let validM := if isScript then (if dec.startsWith "ok" then "1" else "0")
        else (match validA58 H256d txt with | .ok _ => "1" | .error _ => "0")
      let model := s!"dec={dec} valid={validM}"
      -- accepted ⇒ the text is exactly the canonical layout of the decoded fields with the right checksum
      let f := impl.splitOn " "
      let idec := fieldD f "dec"
      let pred := if impl.contains "PANIC" then "false:panic"
        else if idec.startsWith "ok:" then
          (match (idec.drop 3).toString.splitOn ":" with
           | [p, v, n, d] =>
             (match strOfHex? p, v.toNat?, n.toNat?, hexDec (if d == "e" then "" else d) with
              | some pfx, some v, some n, some d =>
                let layout := bip276Payload { pfx := pfx, version := v, network := n, data := d }
                let ck := hexChars ((H256d (layout.map fun c => UInt8.ofNat c.toNat)).take 4)
                let lower (l : List Char) := l.map Char.toLower
                -- the prefix is returned as written (case and all); hex digits may be written in either case
                if txt.take pfx.length == pfx && lower (txt.take layout.length) == lower layout && txt.drop layout.length == ck then
                  (if isScript && fieldD f "valid" != "1" then "false:validate-disagrees-with-decode" else "true")
                else "false:accepted-malformed-or-bad-checksum"
              | _, _, _, _ => "false:shape")
           | _ => "false:shape")
        else if isScript && fieldD f "valid" == "1" then "false:validate-accepts-undecodable"
        else "true"
      (model, pred)
  | _ => ("bad-op", "n/a")

end GoBT.Driver
