import GoBT.Driver.Interp
import GoBT.Driver.Fee
import GoBT.Ord.Model
namespace GoBT.Driver
open GoBT GoBT.Fee GoBT.Ord GoBT.Interp

/-- `txid:vout:script:sats:priv` (the private key is the harness's business) -/
def parseOrdUtxo? (s : String) : Option UTXO :=
  match s.splitOn ":" with
  | [t, v, sc, sa, _] => do
    pure { txid := (← hexDec t), vout := (← v.toNat?), script := (← optHex? sc), sats := (← sa.toNat?) }
  | _ => none

def parseOrdUtxos? (s : String) : Option (List UTXO) :=
  if s == "-" then some [] else (s.splitOn "|").mapM parseOrdUtxo?

def showOErr : OErr → String
  | .invalidOffer => "err-invalid-offer" | .insufficientUTXOs => "err-insufficient-utxos"
  | .emptyScripts => "err-empty-scripts" | .insufficientUTXOValue => "err-insufficient-utxo-value"
  | .addInput => "err-invalidtxid" | .fee e => "err-" ++ showFeeErr e | .insufficientFees => "err-insufficient-fees"
  | .notP2PKH => "err-notp2pkh" | .cloneFatal => "FATAL" | .dataTooBig => "err-data-too-big"

/-- copy the unlocking scripts the implementation installed into the model's (unsigned) shape -/
def graft (shape impl : Tx) : Tx :=
  { shape with inputs := shape.inputs.zipIdx.map fun (i, k) =>
      match impl.inputs[k]? with
      | some j => { i with unlocking := j.unlocking }
      | none => i }

def lookupUtxo (table : List UTXO) (i : Input) : Option UTXO :=
  table.find? fun u => u.txid == i.prevTxID && u.vout == i.vout

/-- the model interpreter's verdict on every input of `tx` against the outputs in `table` -/
def ordVerdicts (tx : Tx) (table : List UTXO) : List String :=
  tx.inputs.zipIdx.map fun (i, k) =>
    match lookupUtxo table i with
    | none => "?"
    | some u =>
      let lock := u.script.getD []
      let ctx : Ctx := { tx := tx, idx := k, prevOut := { sats := u.sats, script := lock } }
      match (execute realCrypto (fForkID + fAfterGenesis) (some ctx) (i.unlocking.getD []) lock).1 with
      | .accept => "a" | .reject _ => "r" | .panic _ => "P"

def showVs (l : List String) : String := if l.isEmpty then "-" else ",".intercalate l

/-- the property's checks on a completed flow transaction (all from the implementation's answer):
    every input accepted; seller's output where the seller's signature (or the flow) puts it; the ordinal's first
    satoshi goes to the buyer's script; the fee left is at least the quoted fee for the final size. -/
def ordPred (tx : Tx) (vs : String) (table : List UTXO) (ord : UTXO) (buyer : Bytes) (sellerOut : Output)
    (sellerIdxFromInput : Bool) (fixedSellerIdx : Nat) (fq : FeeQuote) : String :=
  if vs.contains 'r' || vs.contains '?' || vs.contains 'P' || vs.contains 'p' then s!"false:input-not-accepted v={vs}" else
  match tx.inputs.findIdx? (fun i => i.prevTxID == ord.txid && i.vout == ord.vout) with
  | none => "false:ordinal-input-missing"
  | some k =>
    let sIdx := if sellerIdxFromInput then k else fixedSellerIdx
    if tx.outputs[sIdx]? != some sellerOut then s!"false:seller-output-not-at-index-{sIdx}" else
    -- first-in-first-out: value of the inputs in front of the ordinal input, from the spent outputs
    let sats := tx.inputs.map fun i => (lookupUtxo table i).map (·.sats) |>.getD 0
    let offset := (sats.take k).sum
    match satOwner tx.outputs offset 0 with
    | none => "false:ordinal-satoshi-paid-as-fee"
    | some j =>
      if (tx.outputs[j]?.map (·.script)) != some buyer then s!"false:ordinal-satoshi-goes-to-output-{j}" else
      let inS := sats.sum
      let outS := totalOut tx
      let fee := feesPaid (sizeWithTypes tx) fq
      if inS < outS then "false:outputs>inputs"
      else if inS - outS < fee then s!"false:underpays left={inS - outS} quoted={fee}"
      else "true"

/-- `C20.list <variant> <fq> <ordUtxo> <sellerSats:sellerScript> <utxos> <buyer> <dummy> <change>` -/
def c20List (args : List String) (impl : String) : String × String :=
  match args with
  | [variant, q, ou, so, us, b, d, c] =>
    match parseFq? q, parseOrdUtxo? ou, parseOutput? so, parseOrdUtxos? us, unE? b, unE? d, unE? c with
    | some fq, some ord, some sout, some utxos, some buyer, some dummy, some chg =>
      let f := impl.splitOn " "
      -- the listing itself: one input (the ordinal), one output (the seller's), signed by the seller
      match addInputs newTx [ord] with
      | .error e => ("list:" ++ showOErr e, if impl.startsWith "panic" then "false:panic" else "true")
      | .ok l0 =>
        let listing : Tx := { l0 with outputs := [sout] }
        match parseTx? (fieldD f "pstx") with
        | none => (s!"? pstx={showTx listing}", if impl.startsWith "panic" then "false:panic" else "true")
        | some ipstx =>
          let pstx := graft listing ipstx
          let r := if variant == "1" then acceptListing pstx ord utxos buyer dummy chg fq
                   else acceptListing2D pstx ord utxos buyer dummy chg fq
          match r with
          | .error e => (s!"accept:{showOErr e} pstx={showTx pstx}", if impl.startsWith "panic" then "false:panic" else
              -- the implementation completed a flow the model refuses: judge its transaction by the property itself
              match parseTx? (fieldD f "tx") with
              | some itx => if impl.startsWith "ok" then ordPred itx (fieldD f "v") (utxos ++ [ord]) ord buyer sout true 0 fq else "true"
              | none => "true")
          | .ok shape =>
            match parseTx? (fieldD f "tx") with
            | none => (s!"ok pstx={showTx pstx} tx={showTx shape} v=*", if impl.startsWith "panic" then "false:panic" else "true")
            | some itx =>
              let table := utxos ++ [ord]
              let mv := showVs (ordVerdicts itx table)
              let model := s!"ok pstx={showTx pstx} tx={showTx (graft shape itx)} v={mv}"
              let pred := ordPred itx (fieldD f "v") table ord buyer sout true 0 fq
              (model, pred)
    | _, _, _, _, _, _, _ => ("bad-op", "n/a")
  | _ => ("bad-op", "n/a")

/-- `C20.bid <variant> <fq> <ordUtxo> <bid> <utxos> <buyer> <dummy> <change> <sellerScript> <placeholder> <funny>` -/
def c20Bid (args : List String) (impl : String) : String × String :=
  match args with
  | [variant, q, ou, bd, us, b, d, c, ss, ph, fn] =>
    match parseFq? q, parseOrdUtxo? ou, bd.toNat?, parseOrdUtxos? us, unE? b, unE? d, unE? c, unE? ss, unE? ph, unE? fn with
    | some fq, some ord, some bid, some utxos, some buyer, some dummy, some chg, some seller, some placeholder, some funny =>
      let f := impl.splitOn " "
      let pan := if impl.startsWith "panic" then "false:panic" else "true"
      let mk := if variant == "1" then makeBid bid ord.txid ord.vout utxos buyer dummy chg fq placeholder funny
                else makeBid2D bid ord.txid ord.vout utxos buyer dummy chg fq placeholder funny
      match mk with
      | .error e => ("make:" ++ showOErr e,
          match parseTx? (fieldD f "tx") with
          | some itx => if impl.startsWith "ok" then
              ordPred itx (fieldD f "v") (utxos ++ [ord]) ord buyer { sats := bid, script := seller } false
                (if variant == "1" then 1 else 2) fq else pan
          | none => pan)
      | .ok bshape =>
        match parseTx? (fieldD f "pstx") with
        | none => (s!"? pstx={showTx bshape}", pan)
        | some ipstx =>
          let pstx := graft bshape ipstx
          let table := utxos ++ [ord]
          -- the seller's unlocking script: the one the implementation installed; when the implementation stopped
          -- with an error, every plausible length (the DER signature varies by a few bytes) must give one answer
          let itx? := parseTx? (fieldD f "tx")
          let run (u : Bytes) := if variant == "1" then acceptBid pstx ord bid fq seller u
                   else
                     let prev := pstx.inputs.filterMap (lookupUtxo table)
                     acceptBid2D pstx prev bid fq seller
          let unlocks : List Bytes := match itx? with
            | some itx => [((itx.inputs[1]?.bind (·.unlocking)).getD [])]
            | none => [List.replicate 105 0, List.replicate 106 0, List.replicate 107 0, List.replicate 108 0]
          let rs := unlocks.map run
          let r := rs.headD (.error .invalidOffer)
          let agree := rs.all fun x => (match x, r with
            | .ok _, .ok _ => true | .error a, .error b => a == b | _, _ => false)
          if !agree then ("*", pan) else
          match r with
          | .error e => (s!"accept:{showOErr e} pstx={showTx pstx}",
              match itx? with
              | some itx => if impl.startsWith "ok" then
                  ordPred itx (fieldD f "v") table ord buyer { sats := bid, script := seller } false
                    (if variant == "1" then 1 else 2) fq else pan
              | none => pan)
          | .ok shape =>
            match parseTx? (fieldD f "tx") with
            | none => (s!"ok pstx={showTx pstx} tx={showTx shape} v=*", pan)
            | some itx =>
              let mv := showVs (ordVerdicts itx table)
              let model := s!"ok pstx={showTx pstx} tx={showTx (graft shape itx)} v={mv}"
              let pred := ordPred itx (fieldD f "v") table ord buyer { sats := bid, script := seller } false
                (if variant == "1" then 1 else 2) fq
              (model, pred)
    | _, _, _, _, _, _, _, _, _, _ => ("bad-op", "n/a")
  | _ => ("bad-op", "n/a")

/-- `C20.insc <prefix> <contentType> <data>`: impl `ok sats=1 script=<hex> parse=<prefix>:<ct>:<data>` -/
def c20Insc (args : List String) (impl : String) : String × String :=
  match args with
  | [p, c, d] =>
    match unE? p, unE? c, unE? d with
    | some pre, some ct, some data =>
      match inscriptionScript pre ct data with
      | none => ("err-data-too-big", if impl.startsWith "panic" then "false:panic" else "true")
      | some s =>
        let pi := match Script.parseInscription s with
          | none => "PANIC"
          | some (.ok p c d) => s!"{hexE p}:{hexE c}:{hexE d}"
          | some .errDecode => "err-*" | some .errNotFound => "err-*"
        let f := impl.splitOn " "
        let ipi := fieldD f "parse"
        let model := s!"ok sats=1 script={hexE s} parse={if pi == "err-*" && ipi.startsWith "err-" then ipi else pi}"
        -- round trip (for a P2PKH prefix): same prefix, content type and data
        let pred :=
          if impl.startsWith "panic" || impl.contains "PANIC" then "false:panic"
          else if !Script.isP2PKH pre then "true(prefix-not-p2pkh)"
          else if ipi == s!"{hexE pre}:{hexE ct}:{hexE data}" then "true"
          else s!"false:inscription-round-trip got={(ipi.take 60).toString}"
        (model, pred)
    | _, _, _ => ("bad-op", "n/a")
  | _ => ("bad-op", "n/a")

/-- `C20.reinsc <prefix> <ct1> <d1> <ct2> <d2>`: two inscriptions, the second made through the arguments parsed out of the
first; impl `ok first=<p:c:d> second=<p:c:d>`.  In the model scripts are values, so each script parses to its own content. -/
def c20Reinsc (args : List String) (impl : String) : String × String :=
  match args with
  | [p, c1, d1, c2, d2] =>
    match unE? p, unE? c1, unE? d1, unE? c2, unE? d2 with
    | some pre, some ct1, some da1, some ct2, some da2 =>
      let show1 (s : Option Bytes) : String := match s with
        | none => "err"
        | some s => match Script.parseInscription s with
          | some (.ok p c d) => s!"{hexE p}:{hexE c}:{hexE d}"
          | _ => "err-*"
      let m1 := show1 (inscriptionScript pre ct1 da1)
      let pre2 := match (inscriptionScript pre ct1 da1).bind Script.parseInscription with
        | some (.ok p _ _) => p | _ => pre
      let m2 := show1 (inscriptionScript pre2 ct2 da2)
      let model := s!"ok first={m1} second={m2}"
      let f := impl.splitOn " "
      let pred :=
        if impl.startsWith "panic" then "false:panic"
        else if !Script.isP2PKH pre then "true(prefix-not-p2pkh)"
        else if fieldD f "first" != s!"{hexE pre}:{hexE ct1}:{hexE da1}" then
          s!"false:first-inscription-no-longer-parses-to-its-content got={((fieldD f "first").take 60).toString}"
        else if fieldD f "second" != s!"{hexE pre}:{hexE ct2}:{hexE da2}" then
          s!"false:second-inscription-round-trip got={((fieldD f "second").take 60).toString}"
        else "true"
      (model, pred)
    | _, _, _, _, _ => ("bad-op", "n/a")
  | _ => ("bad-op", "n/a")

/-- `C20.specific <txdesc> <inputIdx> <satIdx> <extraScript> <prefix> <ct> <data>`: impl `ok tx=<desc>` | `err-…` -/
def c20Specific (args : List String) (impl : String) : String × String :=
  match args with
  | [td, ii, si, ex, p, c, d] =>
    match parseTx? td, ii.toNat?, si.toNat?, unE? ex, unE? p, unE? c, unE? d with
    | some tx, some idx, some sat, some extra, some pre, some ct, some data =>
      let pan := if impl.startsWith "panic" then "false:panic" else "true"
      match inscribeSpecific tx idx sat extra pre ct data with
      | .error e => ("err-" ++ e, pan)
      | .ok t =>
        let f := impl.splitOn " "
        let pred := match parseTx? (fieldD f "tx") with
          | none => pan
          | some it =>
            -- the chosen satoshi (position `sat` of input `idx`) must land in the inscription output
            if idx < tx.inputs.length && sat < (tx.inputs[idx]?.map (·.prevSats)).getD 0 then
              match satOwner it.outputs (satOffset tx.inputs idx + sat) 0 with
              | some j => if (it.outputs[j]?.map (·.script)) == inscriptionScript pre ct data then "true"
                          else s!"false:chosen-satoshi-goes-to-output-{j}"
              | none => "false:chosen-satoshi-paid-as-fee"
            else "true(no-such-satoshi)"
        (s!"ok tx={showTx t}", pred)
    | _, _, _, _, _, _, _ => ("bad-op", "n/a")
  | _ => ("bad-op", "n/a")

/-- `txid:vout:sats|…` or `nil` -/
def parseVUtxos? (s : String) : Option (List UTXO) :=
  if s == "nil" then some [] else
  (s.splitOn "|").mapM fun x =>
    match x.splitOn ":" with
    | [t, v, sa] => do pure { txid := (← hexDec t), vout := (← v.toNat?), script := none, sats := (← sa.toNat?) }
    | _ => none

/-- `C20.validate <L|B|D> <pstx> <utxos|nil> <bid> <fq>`: the validation gates of the three flows on their own.
    Predicate (stated apart from the model): an offer is accepted only when the input the gate protects spends exactly
    the expected outpoint (for the two-dummies bid: every input spends the listed previous output, in order). -/
def c20Validate (args : List String) (impl : String) : String × String :=
  match args with
  | [kind, d, us, bid, q] =>
    match parseTx? d, parseVUtxos? us, bid.toNat?, parseFq? q with
    | some tx, some us, some bid, some fq =>
      let res : Option (Option Tx) := match kind, us with
        | "L", [] => some none
        | "L", u :: _ => some (if validateListing tx u then some tx else none)
        | "B", u :: _ => some (validateBid tx u bid fq)
        | "D", _ => some (validateBid2D tx us bid fq)
        | _, _ => none
      match res with
      | none => ("bad-op", "n/a")
      | some r =>
        let model := match r with
          | none => "v=0 outs=-"
          | some t => s!"v=1 outs={",".intercalate (t.outputs.map fun o => toString o.sats)}"
        let same (i : Option Input) (u : Option UTXO) : Bool :=
          match i, u with
          | some i, some u => i.prevTxID == u.txid && i.vout == u.vout
          | _, _ => false
        let expected : Bool := match kind with
          | "L" => tx.inputs.length == 1 && tx.outputs.length == 1 && same tx.inputs[0]? us[0]?
          | "B" => same tx.inputs[1]? us[0]?
          | _ => us.length == tx.inputs.length && (List.range us.length).all fun k => same tx.inputs[k]? us[k]?
        let accepted := impl.startsWith "v=1"
        let pred := if impl.startsWith "panic" then "false:panic"
          else if accepted && !expected then "false:offer-for-another-outpoint-accepted"
          else "true"
        (model, pred)
    | _, _, _, _ => ("bad-op", "n/a")
  | _ => ("bad-op", "n/a")

end GoBT.Driver
