import GoBT.Driver.C01
import GoBT.Json.Shapes
namespace GoBT.Driver
open GoBT GoBT.Json

def parseDecimal? (s : String) : Option Rat :=
  match s.splitOn "." with
  | [a] => a.toNat?.map (fun n => (n : Rat))
  | [a, b] => do
    let n ← (a ++ b).toNat?
    pure ((n : Rat) / ((10 ^ b.length : Nat) : Rat))
  | _ => none

def parseHexFld? (s : String) : Option HexFld :=
  if s == "BAD" then some .bad else (hexDec s).map .ok

def kv (s : String) (k : String) : Option String :=
  (s.splitOn ",").findSome? fun f => if f.startsWith (k ++ ":") then some (f.drop (k.length + 1)).toString else none

def parseNodeIn? (s : String) : Option (Option NodeIn) :=
  if s == "null" then some none else do
    let ss ← kv s "ss"
    let ssf ← if ss == "ABSENT" then some none else (parseHexFld? ss).map some
    let txid ← (kv s "txid") >>= parseHexFld?
    let vout ← (kv s "vout") >>= String.toNat?
    let seq ← (kv s "seq") >>= String.toNat?
    pure (some { scriptSig := ssf, txid := txid, vout := vout, sequence := seq })

def parseNodeOut? (s : String) : Option (Option NodeOut) :=
  if s == "null" then some none else do
    let v ← (kv s "val") >>= parseDecimal?
    let spk ← kv s "spk"
    let spkf ← if spk == "ABSENT" then some none else (parseHexFld? spk).map some
    pure (some { value := v, scriptPubKey := spkf })

def parseBarList? {α} (f : String → Option α) (s : String) : Option (List α) :=
  if s.isEmpty then some [] else (s.splitOn "|").mapM f

def parseNodeTx? (s : String) : Option NodeTx := do
  let fs := s.splitOn ";"
  let get (k : String) : Option String := fs.findSome? fun f =>
    if f.startsWith (k ++ "=") then some (f.drop (k.length + 1)).toString else none
  let v ← (get "v") >>= String.toNat?
  let lt ← (get "lt") >>= String.toNat?
  let hx ← get "hex"
  let hexf ← if hx == "-" then some none else (parseHexFld? hx).map some
  let vin ← (get "vin") >>= parseBarList? parseNodeIn?
  let vout ← (get "vout") >>= parseBarList? parseNodeOut?
  pure { version := v, lockTime := lt, hex := hexf, vin := vin, vout := vout }

/-- `C09.njtx <shape>`: json.Unmarshal into tx.NodeJSON(). impl: `ok tx=<txdesc>` | `err` | `PANIC` -/
def c09NodeTx (args : List String) (impl : String) : String × String :=
  match args with
  | [sh] =>
    match parseNodeTx? sh with
    | none => ("bad-op", "n/a")
    | some t =>
      let model := match nodeTxToTx t with
        | .ok tx => s!"ok tx={showTx tx}"
        | .error _ => "err"
      (model, if impl.contains "PANIC" || impl.startsWith "panic" then "false:panic" else "true")
  | _ => ("bad-op", "n/a")

/-- any op whose only claim is "returns a value or an error": model answer is the wildcard `*` -/
def noPanicOnly (impl : String) : String × String :=
  ("*", if impl.contains "PANIC" || impl.startsWith "panic" || impl.contains "CRASH" then "false:panic-or-crash" else "true")

/-- `C09.alloc <len> <kind>`: impl `alloc=<bytes> …`; predicate: allocation linear in the input length -/
def c09Alloc (args : List String) (impl : String) : String × String :=
  match args with
  | lenS :: _ =>
    let f := impl.splitOn " "
    let pred := if impl.contains "PANIC" || impl.contains "CRASH" then "false:panic-or-crash"
      else match lenS.toNat?, (fieldD f "alloc").toNat? with
        | some len, some a =>
          if a > 64 * len + 1048576 then s!"false:allocation-not-linear alloc={a} len={len}"
          else match (fieldD f "n").toNat? with
            | some n => if n ≤ len then "true" else s!"false:reports-more-bytes-consumed-than-supplied n={n} len={len}"
            | none => "true"
        | _, _ => "false:shape"
    ("*", pred)
  | _ => ("bad-op", "n/a")

/-- `C16.amt <n>`: node-dialect amount round trip. impl: `bits=<u64> back=<n> uback=<n>` -/
def c16Amt (args : List String) (impl : String) : String × String :=
  match args with
  | [ns] =>
    match ns.toNat? with
    | none => ("bad-op", "n/a")
    | some n =>
      let v := encodeAmount n
      let b := decodeAmount v
      let model := s!"bits={f64bits v} back={b} uback={b}"
      let f := impl.splitOn " "
      let pred := if impl.contains "PANIC" then "false:panic"
        else if fieldD f "back" == toString n && fieldD f "uback" == toString n then "true"
        else s!"false:amount-not-preserved"
      (model, pred)
  | _ => ("bad-op", "n/a")

/-- `C16.tx <txdesc>`: marshal + unmarshal in both dialects (and as a one-element list).
    impl: `lib=<ok:hex|err|PANIC> node=<…> nodes=<…>`; every unmarshalled object must serialise identically. -/
def c16Tx (args : List String) (impl : String) : String × String :=
  match args with
  | [d] =>
    match parseTx? d with
    | none => ("bad-op", "n/a")
    | some tx =>
      let h := hexEnc (serialize false tx)
      let model := s!"lib=ok:{h} node=ok:{h} nodes=ok:{h}"
      let pred := if impl.contains "PANIC" || impl.startsWith "panic" then "false:marshal-panics"
        else if impl == model then "true" else "false:json-roundtrip"
      (model, pred)
  | _ => ("bad-op", "n/a")

/-- `C16.out <sats> <scripthex>` / `C16.utxo <sats> <scripthex>`: single objects in both dialects.
    impl: `lib=<sats>:<hex> node=<sats>:<hex>` -/
def c16Obj (args : List String) (impl : String) : String × String :=
  match args with
  | [sats, sc] =>
    let scn := if sc == "e" then "" else sc
    let model := s!"lib={sats}:{scn} node={sats}:{scn}"
    (model, if impl.contains "PANIC" then "false:panic" else if impl == model then "true" else "false:json-roundtrip")
  | _ => ("bad-op", "n/a")

/-- `C16.utxos <list>`: a list of UTXOs through both dialects comes back element for element -/
def c16List (args : List String) (impl : String) : String × String :=
  match args with
  | [l] =>
    let model := s!"lib={l} node={l}"
    (model, if impl.contains "PANIC" then "false:panic" else if impl == model then "true" else "false:json-list-roundtrip")
  | _ => ("bad-op", "n/a")

def showInputOnly (i : Input) : String := showInput i

/-- `C09.input <ext> <hex>`: Input.ReadFrom / ReadFromExtended. impl: `ok n=<k> in=<inputdesc>` | `err n=<k>` -/
def c09Input (args : List String) (impl : String) : String × String :=
  match args with
  | [ext, hx] =>
    match hexDec hx with
    | none => ("bad-op", "n/a")
    | some bs =>
      let model := match readInput (ext == "1") bs with
        | .ok (i, _) rest => s!"ok n={consumed bs rest} in={showInput i}"
        | .err n => s!"err n={n}"
      let f := impl.splitOn " "
      let pred := if impl.contains "PANIC" || impl.startsWith "panic" then "false:panic"
        else match (fieldD f "n").toNat? with
          | some n => if n > bs.length then "false:consumed>supplied" else "true"
          | none => "false:no-count"
      (model, pred)
  | _ => ("bad-op", "n/a")

/-- `C09.output <hex>`: Output.ReadFrom. impl: `ok n=<k> out=<sats>:<hex>` | `err n=<k>` -/
def c09Output (args : List String) (impl : String) : String × String :=
  match args with
  | [hx] =>
    match hexDec hx with
    | none => ("bad-op", "n/a")
    | some bs =>
      let model := match readOutput bs with
        | .ok (o, _) rest => s!"ok n={consumed bs rest} out={showOutput o}"
        | .err n => s!"err n={n}"
      let f := impl.splitOn " "
      let pred := if impl.contains "PANIC" || impl.startsWith "panic" then "false:panic"
        else match (fieldD f "n").toNat? with
          | some n => if n > bs.length then "false:consumed>supplied" else "true"
          | none => "false:no-count"
      (model, pred)
  | _ => ("bad-op", "n/a")

/-- `C09.reader <hex>`: Tx.ReadFrom over a one-byte-at-a-time reader. impl: `ok n=<k> txid=<id>` | `err n=<k>` -/
def c09Reader (args : List String) (impl : String) : String × String :=
  match args with
  | [hx] =>
    match hexDec hx with
    | none => ("bad-op", "n/a")
    | some bs =>
      let model := match parse bs with
        | .ok p rest => s!"ok n={consumed bs rest} txid={hexEnc (txid p.tx)}"
        | .err n => s!"err n={n}"
      let f := impl.splitOn " "
      let pred := if impl.contains "PANIC" || impl.startsWith "panic" then "false:panic"
        else match (fieldD f "n").toNat? with
          | some n => if n > bs.length then "false:consumed>supplied" else "true"
          | none => "false:no-count"
      (model, pred)
  | _ => ("bad-op", "n/a")

end GoBT.Driver
