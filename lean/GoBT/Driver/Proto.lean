/-
  Line-protocol glue for the model driver: field splitting, numbers, hex, and the
  textual transaction description (`txdesc`).  Trusted (not verified) glue.
-/
import GoBT.Tx.Wire
namespace GoBT.Driver
open GoBT

def splitOn1 (s : String) (c : Char) : List String := s.splitOn (String.singleton c)

/-- look up `key=` among space-separated fields -/
def field? (fields : List String) (key : String) : Option String :=
  fields.findSome? fun f =>
    if f.startsWith (key ++ "=") then some ((f.drop (key.length + 1)).toString) else none

def fieldD (fields : List String) (key : String) (d : String := "") : String :=
  (field? fields key).getD d

def optHex? (s : String) : Option (Option Bytes) :=
  if s == "-" then some none else (hexDec s).map some

def showOptHex : Option Bytes → String
  | none => "-"
  | some b => hexEnc b

def parseInput? (s : String) : Option Input := do
  match splitOn1 s ':' with
  | [txid, vout, ul, seq, sats, ps] =>
    let txid ← hexDec txid
    let vout ← vout.toNat?
    let ul ← optHex? ul
    let seq ← seq.toNat?
    let sats ← sats.toNat?
    let ps ← optHex? ps
    pure { prevTxID := txid, vout := vout, unlocking := ul, sequence := seq, prevSats := sats, prevScript := ps }
  | _ => none

def parseOutput? (s : String) : Option Output := do
  match splitOn1 s ':' with
  | [sats, sc] => pure { sats := (← sats.toNat?), script := (← hexDec sc) }
  | _ => none

def parseList? {α} (f : String → Option α) (s : String) : Option (List α) :=
  if s.isEmpty then some [] else (splitOn1 s ',').mapM f

/-- `v=<n>;lt=<n>;in=<input>,…;out=<output>,…` -/
def parseTx? (s : String) : Option Tx := do
  match splitOn1 s ';' with
  | [v, lt, ins, outs] =>
    guard (v.startsWith "v=" && lt.startsWith "lt=" && ins.startsWith "in=" && outs.startsWith "out=")
    let v ← (v.drop 2).toString.toNat?
    let lt ← (lt.drop 3).toString.toNat?
    let ins ← parseList? parseInput? (ins.drop 3).toString
    let outs ← parseList? parseOutput? (outs.drop 4).toString
    pure { version := v, inputs := ins, outputs := outs, lockTime := lt }
  | _ => none

def showInput (i : Input) : String :=
  s!"{hexEnc i.prevTxID}:{i.vout}:{showOptHex i.unlocking}:{i.sequence}:{i.prevSats}:{showOptHex i.prevScript}"

def showOutput (o : Output) : String := s!"{o.sats}:{hexEnc o.script}"

def showTx (tx : Tx) : String :=
  s!"v={tx.version};lt={tx.lockTime};in={",".intercalate (tx.inputs.map showInput)};out={",".intercalate (tx.outputs.map showOutput)}"

def showFmt : Fmt → String
  | .std => "std"
  | .ext => "ext"

end GoBT.Driver
