import GoBT.Interp.Events
import GoBT.Driver.Proto
import GoBT.Interp.Exec
import GoBT.Crypto.Hash
import GoBT.Crypto.Secp256k1
import GoBT.Crypto.Der
namespace GoBT.Driver
open GoBT GoBT.Interp

/-- the executable instantiation of the crypto parameters -/
def realCrypto : Crypto :=
  { sha256 := Crypto.sha256
    sha1 := Crypto.sha1
    ripemd160 := Crypto.ripemd160
    pubKeyOk := fun pk => (Crypto.parsePubKey pk).isSome
    verify := fun strict sig h pk =>
      match (if strict then Crypto.parseDERStrict sig else Crypto.parseDERLax sig) with
      | none => none
      | some (r, s) =>
        match Crypto.parsePubKey pk with
        | none => some false
        | some P => some (Crypto.ecdsaVerify P h r s)
    highS := fun sb => Crypto.Secp256k1.beNat sb > Crypto.Secp256k1.halfOrder }

def hexE (b : Bytes) : String := if b.isEmpty then "e" else hexEnc b
def unE? (s : String) : Option Bytes := if s == "e" then some [] else hexDec s

def showStackBT (l : List Bytes) : String := ",".intercalate (l.reverse.map hexE)

def showSnap (sn : Snap) : String :=
  s!"{sn.sidx}:{sn.soff}:{sn.st.numOps}:{if sn.st.early then 1 else 0}:{String.join (sn.st.cond.reverse.map toString)}:{sn.st.lastCodeSep};{showStackBT sn.st.ds};{showStackBT sn.st.as}"

def mkCtx? (txd idx sats : String) (lock : Bytes) : Option (Option Ctx) :=
  if txd == "-" then some none else do
    let tx ← parseTx? txd
    let i ← idx.toNat?
    let s ← sats.toNat?
    pure (some { tx := tx, idx := i, prevOut := { sats := s, script := lock } })

def implCode (impl : String) : String :=
  match (impl.splitOn " ").filter (·.startsWith "code=") with
  | c :: _ => c
  | [] => "code=?"

def showVerdict (v : Verdict) (impl : String) : String × String :=
  match v with
  | .accept => ("accept", "")
  | .reject c =>
    let ic := implCode impl
    (s!"reject {ic}", if ic == "code=" ++ c then "" else s!"code-differs(model={c})")
  | .panic p => (s!"PANIC {p}", "")

/-- `IX.exec <flags> <unlock> <lock> <txdesc|-> <idx> <sats>`:
    impl `accept|reject code=… mut=<m> t=<snap>|<snap>…` -/
def ixExec (args : List String) (impl : String) : String × String :=
  match args with
  | [fl, u, l, txd, idx, sats] =>
    match fl.toNat?, unE? u, unE? l with
    | some flags, some unlock, some lock =>
      match mkCtx? txd idx sats lock with
      | none => ("bad-op", "n/a")
      | some ctx =>
        -- with a transaction context the unlocking script is the one installed on the checked input
        let (v, tr) := execute realCrypto flags ctx unlock lock
        let (vs, note) := showVerdict v impl
        let model := s!"{vs} mut=0 t={"|".intercalate (tr.reverse.map showSnap)}"
        let pred :=
          if impl.startsWith "PANIC" then "false:panic"
          else if !(impl.splitOn " ").contains "mut=0" then "false:caller-data-modified"
          else if impl != model then
            -- the model is the statement of the script rules: a different verdict or a different stack after some
            -- instruction (e.g. a twin changed by an in-place write) is a failure of the property itself
            (if impl.takeWhile (· != ' ') != model.takeWhile (· != ' ') then "false:verdict-differs-from-script-rules"
             else "false:stacks-after-some-instruction-differ-from-script-rules")
          else if note.isEmpty then "true" else "true:" ++ note
        (model, pred)
    | _, _, _ => ("bad-op", "n/a")
  | _ => ("bad-op", "n/a")

/-- `IX.vec <flags> <unlock> <lock> <txdesc> <idx> <sats> <accept|reject>`: a node-generated vector shipped with the
    repository.  The "implementation" column is the node's expectation; the *model's* verdict is what is judged. -/
def ixVec (args : List String) (_impl : String) : String × String :=
  match args with
  | [fl, u, l, txd, idx, sats, want] =>
    match fl.toNat?, unE? u, unE? l with
    | some flags, some unlock, some lock =>
      match mkCtx? txd idx sats lock with
      | none => ("bad-op", "n/a")
      | some ctx =>
        let (v, _) := execute realCrypto flags ctx unlock lock
        let cls := match v with
          | .accept => "accept"
          | .reject _ => "reject"
          | .panic _ => "panic"
        (s!"node-expects={cls}", if cls == want then "true" else s!"false:model-verdict-{cls}-differs-from-the-node's-{want}")
    | _, _, _ => ("bad-op", "n/a")
  | _ => ("bad-op", "n/a")

/-- `IX.total …`: outcome only; the model's claim is "ok or err, never a panic" -/
def ixTotal (impl : String) : String × String :=
  ("*", if impl.startsWith "PANIC" || impl.startsWith "CRASH" then "false:panic-or-crash" else "true")

/-- `IX.dbg <flags> <unlock> <lock>`: impl `verdict same=<0|1> ev=<events> t=<trace under the scribbling debugger>` -/
def ixDbg (args : List String) (impl : String) : String × String :=
  match args with
  | [fl, u, l] =>
    match fl.toNat?, unE? u, unE? l with
    | some flags, some unlock, some lock =>
      let (v, tr) := execute realCrypto flags none unlock lock
      let (vs, _) := showVerdict v impl
      let f := impl.splitOn " "
      let model := s!"{vs} same=1 ev={fieldD f "ev"} t={"|".intercalate (tr.reverse.map showSnap)}"
      let pred := if impl.startsWith "PANIC" then "false:panic"
        else if fieldD f "same" != "1" then "false:debugger-changed-the-execution"
        else if !lifecycleOk (hasFlag flags fBip16 && !hasFlag flags fAfterGenesis && Script.isP2SH lock) (fieldD f "ev").toList then "false:callback-order-outside-lifecycle"
        -- the callbacks other than the four stack ones are exactly the skeleton the model emits (Interp/Events.lean)
        else if impl.takeWhile (· != ' ') == model.takeWhile (· != ' ') &&
            ((fieldD f "ev").toList.filter fun ch => !(ch == 'p' || ch == 'P' || ch == 'q' || ch == 'Q')) !=
              (executeE realCrypto flags none unlock lock).2 then
          s!"false:callback-skeleton-differs-from-model({String.ofList (executeE realCrypto flags none unlock lock).2})"
        -- each step snapshot is the state the instruction leaves behind (stacks, conditional stack, position)
        else if impl.takeWhile (· != ' ') == model.takeWhile (· != ' ') &&
            fieldD f "t" != "|".intercalate (tr.reverse.map showSnap) then "false:snapshot-is-not-the-state-after-the-instruction"
        else "true"
      (model, pred)
    | _, _, _ => ("bad-op", "n/a")
  | _ => ("bad-op", "n/a")

/-- first push of an unlocking script (the signature with its hash-type byte) -/
def firstPush (u : Bytes) : Bytes :=
  match u with
  | [] => []
  | b :: r => match Script.decodeStep b r with
    | some (p, _) => p
    | none => []

/-- `C04.mut <flags> <mutTx> <idx> <sats> <lock> <origTx> <origIdx> <origSats> <origLock>`:
    the implementation's verdict on the (possibly mutated) signed transaction.  Predicate: the input is accepted
    exactly when the digest its hash type commits to is unchanged by the mutation (and accepted when nothing was
    mutated); rejection of a changed digest rests on ECDSA (a different digest does not verify). -/
def c04Mut (args : List String) (impl : String) : String × String :=
  match args with
  | [fl, mtd, midx, msats, mlock, otd, oidx, osats, olock] =>
    match fl.toNat?, parseTx? mtd, midx.toNat?, msats.toNat?, unE? mlock, parseTx? otd, oidx.toNat?, osats.toNat?, unE? olock with
    | some flags, some mtx, some mi, some ms, some ml, some otx, some oi, some os, some ol =>
      let unlock := ((mtx.inputs.getD mi default).unlocking).getD []
      let ctx : Ctx := { tx := mtx, idx := mi, prevOut := { sats := ms, script := ml } }
      let (v, tr) := execute realCrypto flags (some ctx) unlock ml
      let (vs, _) := showVerdict v impl
      let model := s!"{vs} mut=0 t={"|".intercalate (tr.reverse.map showSnap)}"
      let shf := ((firstPush unlock).getLast?.getD 0).toNat
      let env := mkEnv realCrypto flags (some ctx)
      let dM := sigDigest env ctx ml shf
      let dO := sigDigest env { tx := otx, idx := oi, prevOut := { sats := os, script := ol } } ol shf
      let expectAccept := dM.isSome && dM == dO
      let pred := if impl.startsWith "PANIC" then "false:panic"
        else if impl.startsWith "accept" != expectAccept then
          (if expectAccept then "false:uncommitted-change-invalidated-the-signature (or own signature rejected)"
           else "false:committed-change-still-accepted")
        else "true"
      (model, pred)
    | _, _, _, _, _, _, _, _, _ => ("bad-op", "n/a")
  | _ => ("bad-op", "n/a")

end GoBT.Driver
