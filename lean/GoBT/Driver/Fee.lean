import GoBT.Driver.Proto
import GoBT.Fee.Model
import GoBT.Fee.FromTx
import GoBT.Script.Classify
import GoBT.Crypto.Hash
namespace GoBT.Driver
open GoBT GoBT.Fee

def parseFq? (s : String) : Option FeeQuote :=
  match s.splitOn "," with
  | [a, b] =>
    match a.splitOn "/", b.splitOn "/" with
    | [s1, b1], [s2, b2] => do
      pure { stdSat := (← s1.toNat?), stdBytes := (← b1.toNat?), dataSat := (← s2.toNat?), dataBytes := (← b2.toNat?) }
    | _, _ => none
  | _ => none

def showFeeErr : Err → String
  | .emptyPrevScript => "emptyprev" | .unsupportedScript => "unsupported"
  | .insufficientInputs => "insufficient-inputs" | .outputNoExist => "nooutput"
  | .insufficientFunds => "insufficient-funds" | .invalidTxID => "invalidtxid" | .supplier => "supplier"
  | .panic => "PANIC" | .fatal => "FATAL"

def showEx {α} (f : α → String) : Except Err α → String
  | .ok a => "ok:" ++ f a
  | .error e => "err-" ++ showFeeErr e

def b01 (b : Bool) : String := if b then "1" else "0"

/-- `C11.fee <txdesc> <fq>` -/
def c11Fee (args : List String) (impl : String) : String × String :=
  match args with
  | [d, q] =>
    match parseTx? d, parseFq? q with
    | some tx, some fq =>
      let sz := sizeWithTypes tx
      let est := estimateSizeWithTypes tx
      let model := s!"size={sz.total},{sz.std},{sz.data} est={showEx (fun (s : TxSize) => s!"{s.total},{s.std},{s.data}") est} fees={showEx toString (estimateFeesPaid tx fq)} paid={b01 (isFeePaidEnough tx fq)} estpaid={showEx b01 (estimateIsFeePaidEnough tx fq)} deficit={showEx toString (estimateDeficit64 tx fq)}"
      -- predicate: the identities of the property evaluated on the implementation's numbers
      let f := impl.splitOn " "
      let pred :=
        if impl.contains "PANIC" || impl.startsWith "panic" then "false:panic" else
        match (fieldD f "size").splitOn "," |>.map (·.toNat?) with
        | [some t, some s, some dt] =>
          let ser := (serialize false tx).length
          let dataSpec := (tx.outputs.map fun o =>
            match o.script with
            | 0x6a :: _ => o.script.length
            | 0x00 :: 0x6a :: _ => o.script.length
            | _ => 0).sum
          if t != ser then "false:total≠serialised-length"
          else if t != s + dt then "false:total≠std+data"
          else if dt != dataSpec then "false:data-bytes"
          else
            let fee := s * fq.stdSat / fq.stdBytes + dt * fq.dataSat / fq.dataBytes
            let inS := totalIn tx
            let outS := totalOut tx
            let want := if inS < outS then false else decide (inS - outS ≥ fee)
            if fieldD f "paid" != b01 want then "false:fee-sufficiency-predicate"
            else
              -- the estimating predicate: the same rule on the estimated sizes the implementation itself reports
              match (String.ofList ((fieldD f "est").toList.drop 3)).splitOn "," |>.map (·.toNat?), fieldD f "estpaid" with
              | [some _, some es, some ed], ep =>
                let feeE := es * fq.stdSat / fq.stdBytes + ed * fq.dataSat / fq.dataBytes
                let wantE := if inS < outS then false else decide (inS - outS ≥ feeE)
                if (fieldD f "est").startsWith "ok:" && ep.startsWith "ok:" && ep != "ok:" ++ b01 wantE
                then "false:estimating-fee-sufficiency-predicate" else "true"
              | _, _ => "true"
        | _ => "false:shape"
      (model, pred)
    | _, _ => ("bad-op", "n/a")
  | _ => ("bad-op", "n/a")

/-- `C11.signed <txdesc>`: impl `est=<n|err> signed=<n> maxul=<n>` (signed by the library with fresh keys);
    the model supplies `est`; predicate: estimate ≥ real signed size. -/
def c11Signed (args : List String) (impl : String) : String × String :=
  match args with
  | [d] =>
    match parseTx? d with
    | some tx =>
      let f := impl.splitOn " "
      let est := match estimateSizeWithTypes tx with | .ok s => toString s.total | .error e => "err-" ++ showFeeErr e
      let model := s!"est={est} signed={fieldD f "signed"} maxul={fieldD f "maxul"}"
      let pred := match (fieldD f "est").toNat?, (fieldD f "signed").toNat? with
        | some e, some s => if e ≥ s then "true" else "false:estimate<signed-size"
        | _, _ => if impl.startsWith "panic" then "false:panic" else "true"
      (model, pred)
    | none => ("bad-op", "n/a")
  | _ => ("bad-op", "n/a")

def parseDest? (s : String) : Option ChangeDest :=
  if s.startsWith "new:" then (hexDec (s.drop 4).toString).map .newOutput
  else if s.startsWith "idx:" then (s.drop 4).toString.toNat?.map .existing
  else none

/-- `C10.change <txdesc> <fq> <dest>`: impl `ok added=<0|1> tx=<txdesc>` | `err-<class>` -/
def c10Change (args : List String) (impl : String) : String × String :=
  match args with
  | [d, q, ds] =>
    match parseTx? d, parseFq? q, parseDest? ds with
    | some tx, some fq, some dest =>
      let r := change tx fq dest
      let model := match r with
        | .ok (t, added) => s!"ok added={b01 added} tx={showTx t}"
        | .error e => "err-" ++ showFeeErr e
      let f := impl.splitOn " "
      let pred :=
        if impl.contains "PANIC" || impl.startsWith "panic" then "false:panic"
        else if !impl.startsWith "ok" then "true"
        else match parseTx? (fieldD f "tx") with
          | none => "false:shape"
          | some t' =>
            let added := fieldD f "added" == "1"
            let inS := totalIn t'
            let outS := totalOut t'
            let n := tx.outputs.length
            -- 1. pre-existing outputs untouched (except the designated one)
            let untouched := match dest with
              | .newOutput _ => t'.outputs.take n == tx.outputs
              | .existing k => (t'.outputs.zipIdx.all fun (o, i) => i == k || tx.outputs[i]? == some o) &&
                  t'.outputs.length == n && (t'.outputs[k]?.map (·.script)) == (tx.outputs[k]?.map (·.script))
            if !untouched then "false:existing-output-changed"
            else if t'.inputs != tx.inputs || t'.version != tx.version || t'.lockTime != tx.lockTime then "false:other-fields-changed"
            else if outS > inS then "false:outputs>inputs"
            else if added then
              match estimateFeesPaid t' fq with
              | .error _ => "false:cannot-quote-result"
              | .ok quoted =>
                let left := inS - outS
                let slack := (9 * fq.stdSat + fq.stdBytes - 1) / fq.stdBytes + 9
                if left < quoted then s!"false:underpays left={left} quoted={quoted}"
                else if left > quoted + slack then s!"false:burns left={left} quoted={quoted} slack={slack}"
                else "true"
            else
              if t' != tx then "false:changed-without-adding"
              else
                let withChange : Tx := match dest with
                  | .newOutput s => { tx with outputs := tx.outputs ++ [{ sats := 0, script := s }] }
                  | .existing _ => tx
                match estimateFeesPaid withChange fq with
                | .error _ => "true"
                | .ok fee =>
                  if totalIn tx - totalOut tx > fee + dustLimit && upperLimitInc n != -1 then
                    s!"false:change-burned remaining={totalIn tx - totalOut tx - fee}"
                  else "true"
      (model, pred)
    | _, _, _ => ("bad-op", "n/a")
  | _ => ("bad-op", "n/a")

def parseUtxo? (s : String) : Option UTXO :=
  match s.splitOn ":" with
  | [t, v, sc, sa] => do
    pure { txid := (← hexDec t), vout := (← v.toNat?), script := (← optHex? sc), sats := (← sa.toNat?) }
  | [t, v, sc, sa, _seq] => do
    -- the supplier's record may carry a sequence number: Tx.FromUTXOs does not look at it
    pure { txid := (← hexDec t), vout := (← v.toNat?), script := (← optHex? sc), sats := (← sa.toNat?) }
  | _ => none

def parseHist? (s : String) : Option (List Response) :=
  if s == "-" then some [] else
  (s.splitOn ";").mapM fun r =>
    if r == "x" || r == "w" then some .exhausted   -- "w": the exhaustion sentinel wrapped with context (errors.Is)
    else if r == "e" then some .failed
    else if r == "b" then some (.batch [])
    else if r.startsWith "b=" then ((r.drop 2).toString.splitOn "|").mapM parseUtxo? |>.map .batch
    else none

/-- `C12.fund <txdesc> <fq> <hist>`: impl `<ok|err-class> calls=<d1,d2,…|-> tx=<txdesc>` -/
def c12Fund (args : List String) (impl : String) : String × String :=
  match args with
  | [d, q, h] =>
    match parseTx? d, parseFq? q, parseHist? h with
    | some tx, some fq, some hist =>
      let r := fund fq hist tx []
      let showCalls (l : List Nat) := if l.isEmpty then "-" else ",".intercalate (l.map toString)
      let oc := match r.outcome with | .ok => "ok" | .err e => "err-" ++ showFeeErr e
      let model := s!"{oc} calls={showCalls r.calls} tx={showTx r.tx}"
      -- predicate from the property text, evaluated on the implementation's answer
      let f := impl.splitOn " "
      let pred :=
        if impl.contains "PANIC" || impl.startsWith "panic" then "false:panic" else
        match parseTx? (fieldD f "tx") with
        | none => "false:shape"
        | some t' =>
          let calls := if fieldD f "calls" == "-" then [] else (fieldD f "calls").splitOn "," |>.filterMap (·.toNat?)
          if t'.outputs != tx.outputs then "false:outputs-touched"
          else if calls.any (· == 0) then "false:supplier-called-with-zero-deficit"
          else
            -- the batches the supplier handed over during those calls
            let batches := (hist.take calls.length).filterMap fun r => match r with | .batch us => some us | _ => none
            let expectIns := tx.inputs ++ (batches.flatten.map fun u =>
              ({ prevTxID := u.txid, vout := u.vout, unlocking := none, sequence := 0xFFFFFFFF,
                 prevSats := u.sats, prevScript := u.script } : Input))
            if impl.startsWith "ok" then
              if t'.inputs != expectIns then "false:inputs-not-previous++supplied"
              else match estimateFeesPaid t' fq with
                | .error _ => "false:cannot-quote-result"
                | .ok fee =>
                  if totalIn t' < totalOut t' + fee then "false:not-covered"
                  else
                    -- the k-th call must carry the deficit of the transaction after k-1 batches
                    let rec chk (cur : Tx) (cs : List Nat) (bs : List (List UTXO)) (fuel : Nat) : String :=
                      match fuel, cs with
                      | 0, _ => "true"
                      | _, [] => (match estimateDeficit64 cur fq with
                                  | .ok 0 => "true"
                                  | _ => "false:stopped-with-deficit")
                      | fuel + 1, c :: cs' =>
                        match estimateDeficit64 cur fq with
                        | .ok dd =>
                          if dd != c then s!"false:stale-deficit want={dd} got={c}"
                          else match bs with
                            | b :: bs' => chk (fromUTXOs cur b).1 cs' bs' fuel
                            | [] => "false:more-calls-than-batches"
                        | .error _ => "true"
                    chk tx calls batches (calls.length + 1)
            else if impl.startsWith "err-insufficient-funds" then
              -- "always given the current deficit" holds for the calls of a failed funding as well
              let rec chkE (cur : Tx) (cs : List Nat) (bs : List (List UTXO)) (fuel : Nat) : String :=
                match fuel, cs with
                | 0, _ => "true"
                | _, [] => "true"
                | fuel + 1, c :: cs' =>
                  match estimateDeficit64 cur fq with
                  | .ok dd =>
                    if dd != c then s!"false:stale-deficit want={dd} got={c}"
                    else match bs with
                      | b :: bs' => chkE (fromUTXOs cur b).1 cs' bs' fuel
                      | [] => "true"
                  | .error _ => "true"
              let ce := chkE tx calls batches (calls.length + 1)
              if ce != "true" then ce else
              -- insufficient funds is reported only when the supplier reported exhaustion (or ran dry)
              -- on the last call while a deficit remained
              (match calls.length with
               | 0 => "false:insufficient-funds-without-calling-supplier"
               | k + 1 => match hist[k]? with
                 | some .exhausted => "true"
                 | none => "true"
                 | some _ => "false:insufficient-funds-without-exhaustion")
            else
              -- the converse: when the supplier's last answer was "exhausted", the error is insufficient funds
              (match calls.length with
               | k + 1 => match hist[k]? with
                 | some .exhausted => "false:exhaustion-not-reported-as-insufficient-funds"
                 | _ => "true"
               | 0 => "true")
      (model, pred)
    | _, _, _ => ("bad-op", "n/a")
  | _ => ("bad-op", "n/a")

/-- `C12.fromtx <previous tx> <pubkey hex>`: Tx.AddP2PKHInputsFromTx on a fresh transaction.
    Predicate: every input added spends an output of the previous transaction whose script is P2PKH-shaped for HASH160(key). -/
def c12FromTx (args : List String) (impl : String) : String × String :=
  match args with
  | [d, k] =>
    match parseTx? d, hexDec k with
    | some pvs, some key =>
      let prevID := (Crypto.sha256d (serialize false pvs)).reverse
      match addP2PKHInputsFromTx Crypto.hash160 (fun _ => prevID) { version := 1, inputs := [], outputs := [], lockTime := 0 } pvs key with
      | none => ("PANIC", "n/a")
      | some (t, ok) =>
        let model := s!"{if ok then "ok" else "err"} n={t.inputs.length} in={",".intercalate (t.inputs.map showInput)}"
        -- the specification (C12.inputs_from_tx_spend_matching_outputs / …_cover_matching_outputs) on the implementation's answer
        let f := impl.splitOn " "
        let want := Crypto.hash160 key
        let pays (o : Output) : Bool := Script.publicKeyHash o.script == some (.ok want)
        let pred :=
          if impl.startsWith "panic" || impl.contains "PANIC" then "false:panic" else
          match parseList? parseInput? (fieldD f "in") with
          | none => "false:unreadable-inputs"
          | some ins =>
            let good (i : Input) : Bool :=
              match pvs.outputs[i.vout]? with
              | some o => pays o && i.prevSats == o.sats && i.prevScript == some o.script && i.prevTxID == prevID &&
                          i.unlocking == none && i.sequence == 0xFFFFFFFF
              | none => false
            if !ins.all good then "false:input-does-not-spend-a-matching-output"
            else if impl.startsWith "ok" && ins.map (·.vout) != ((List.range pvs.outputs.length).filter fun k => (pvs.outputs[k]?.map pays).getD false)
              then "false:matching-output-not-spent-exactly-once-in-order"
            else "true"
        (model, pred)
    | _, _ => ("bad-op", "n/a")
  | _ => ("bad-op", "n/a")

/-- `C11.noquote <txdesc> <n|s|d|z>`: a quote that cannot answer (nil, a fee type missing, zero value).  In the model a fee
    quote always holds both rates, so there is nothing to compute: every fee-dependent operation must report an error,
    produce no number and leave the transaction as it was. -/
def c11NoQuote (_args : List String) (impl : String) : String × String :=
  let model := "paid=err estpaid=err estfees=err change=err changeto=err changeaddr=err fund=err"
  let pred := if impl.startsWith "panic" then "false:panic"
    else if impl.contains "+changed" then "false:transaction-changed-without-a-quote"
    else if impl.contains "=ok" then "false:fee-decision-without-a-quote"
    else "true"
  (model, pred)

end GoBT.Driver
