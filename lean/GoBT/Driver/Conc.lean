import GoBT.Driver.Proto
import GoBT.Conc.Compile
import GoBT.Gen.Shared
namespace GoBT.Driver
open GoBT.Conc

/-- is the method (by extracted facts) a guarded program? -/
def methodGuarded (name : String) : Bool :=
  match GoBT.Gen.Locks.methods.lookup name with
  | none => false
  | some body =>
    match compileBody GoBT.Gen.Locks.methods 0 1 body with
    | some p => guardedFrom [] p
    | none => false

/-- `C18.race <scenario> <seed> <goroutines> <gomaxprocs>`: impl `ok reads=<n>` | `race <fn>|<fn>` | `mismatch …`.
    Model: for two guarded methods the lock model allows no race (`C18.guarded_programs_race_free`), so the
    prediction is `ok`; when the extracted facts say a method is unguarded nothing is predicted.
    Predicate: no race report, no read of a value nobody wrote, no verdict differing from sequential, no timeout. -/
def c18Race (args : List String) (impl : String) : String × String :=
  match args with
  | [sc, _, _, _] =>
    let parts := sc.splitOn ":"
    let predicted : Bool := match parts with
      | ["fq", a, b] => methodGuarded ("FeeQuote." ++ a) && methodGuarded ("FeeQuote." ++ b)
      | ["fqs", a, b] => methodGuarded ("FeeQuotes." ++ a) && methodGuarded ("FeeQuotes." ++ b)
      | ["fqsq", a, b] => methodGuarded ("FeeQuotes." ++ a) && methodGuarded ("FeeQuote." ++ b)
      | ["engine"] => GoBT.Gen.Shared.engineFields == 0 && GoBT.Gen.Shared.writtenGlobals.isEmpty
      | ["scripts"] => GoBT.Gen.Shared.engineFields == 0 && GoBT.Gen.Shared.writtenGlobals.isEmpty
      | ["enginelong"] => GoBT.Gen.Shared.engineFields == 0 && GoBT.Gen.Shared.writtenGlobals.isEmpty
      | _ => false
    let model := if !predicted then "*" else if impl.startsWith "ok" then impl else "ok"
    let pred :=
      if impl.startsWith "ok" then "true"
      else if impl.startsWith "race" then s!"false:data-race {(impl.drop 5).toString}"
      else if impl.startsWith "mismatch" then s!"false:value-or-verdict-mismatch {(impl.drop 9).take 80 |>.toString}"
      else if impl.startsWith "timeout" then "false:timeout-deadlock"
      else "true(harness-could-not-run-the-scenario)"
    (model, pred)
  | _ => ("bad-op", "n/a")

end GoBT.Driver
