/-
  Node-style JSON amounts (txjson_node.go, utxojson.go): satoshis → float64 coin value on the way out,
  coin value → satoshis on the way in.  IEEE-754 binary64 round-to-nearest-even is modelled on exact
  rationals (`rn53`); Go's conformance to it is an assumption exercised by the correspondence check.
  Core Lean only (`Rat` is in core).
-/
namespace GoBT.Json

/-- ⌊log₂ q⌋ for q ≥ 1 given as numerator/denominator, by counting (fuel-bounded) -/
def log2Up (fuel : Nat) (num den : Nat) (e : Nat) : Nat :=
  match fuel with
  | 0 => e
  | fuel + 1 => if num ≥ 2 * den then log2Up fuel num (2 * den) (e + 1) else e

/-- exponent e with 2^e ≤ q < 2^(e+1), for q > 0 -/
def floorLog2 (q : Rat) : Int :=
  let n := q.num.toNat
  let d := q.den
  if n ≥ d then (log2Up (n.log2 + 2) n d 0 : Nat)
  else
    -- q < 1: find k with 2^k * n ≥ d, minimal
    let k := (log2Up (d.log2 + 2) d n 0)      -- 2^k ≤ d/n < 2^(k+1)
    if n * 2 ^ k = d then -(k : Int) else -(k : Int) - 1

def pow2 (e : Int) : Rat := if e ≥ 0 then ((2 ^ e.toNat : Nat) : Rat) else 1 / ((2 ^ (-e).toNat : Nat) : Rat)

/-- round a non-negative rational to the nearest integer, ties to even -/
def roundHalfEven (q : Rat) : Int :=
  let f := q.floor
  let r := q - f
  if r < 1/2 then f else if r > 1/2 then f + 1 else if f % 2 = 0 then f else f + 1

/-- round-to-nearest-even to 53 significant bits (normal range, q > 0); 0 ↦ 0 -/
def rn53 (q : Rat) : Rat :=
  if q ≤ 0 then 0 else
  let e := floorLog2 q
  let u := pow2 (e - 52)
  (roundHalfEven (q / u) : Rat) * u

/-- IEEE-754 binary64 bit pattern of a positive value already representable (normal range) -/
def f64bits (v : Rat) : Nat :=
  if v ≤ 0 then 0 else
  let e := floorLog2 v
  let m := (v / pow2 (e - 52)).floor.toNat
  ((e + 1023).toNat) * 2 ^ 52 + (m - 2 ^ 52)

/-- math.Round: nearest integer, ties away from zero (non-negative argument) -/
def roundHalfAway (q : Rat) : Int :=
  let f := q.floor
  if q - f < 1/2 then f else f + 1

/-- satoshis → coin value: `float64(sats) / 100000000` -/
def encodeAmount (sats : Nat) : Rat := rn53 (rn53 (sats : Rat) / 100000000)

/-- coin value → satoshis: `uint64(math.Round(value * 100000000))` -/
def decodeAmount (v : Rat) : Nat := (roundHalfAway (rn53 (v * 100000000))).toNat

/-- the pre-fix conversion `uint64(value * 100000000)` (truncation), kept for the counterexample -/
def decodeAmountTrunc (v : Rat) : Nat := (rn53 (v * 100000000)).floor.toNat

end GoBT.Json
