/-
  txjson.go / txjson_node.go / utxojson.go: what the JSON entry points do *after* encoding/json has filled the
  wrapper structs.  A shape says, per field, whether it was absent / null / present (pointer fields are
  `Option`), so that "absent scriptSig" and "null array element" are in the quantifier.  Core Lean only.
-/
import GoBT.Tx.Wire
import GoBT.Json.Amount
namespace GoBT.Json
open GoBT

/-- a JSON string field that is supposed to hold hex -/
inductive HexFld | bad | ok (b : Bytes)
  deriving Repr, DecidableEq

/-- nodeInputJSON (`none` element = JSON null in the array) -/
structure NodeIn where
  scriptSig : Option HexFld      -- none = the scriptSig object is absent
  txid : HexFld
  vout : Nat
  sequence : Nat
  deriving Repr, DecidableEq

/-- nodeOutputJSON -/
structure NodeOut where
  value : Rat
  scriptPubKey : Option HexFld   -- none = the scriptPubKey object is absent
  deriving Repr, DecidableEq

structure NodeTx where
  version : Nat
  lockTime : Nat
  hex : Option HexFld            -- none = "" / absent
  vin : List (Option NodeIn)
  vout : List (Option NodeOut)
  deriving Repr, DecidableEq

inductive JErr | err
  deriving Repr, DecidableEq

/-- nodeInputJSON.toInput (with the nil checks) -/
def nodeInToInput (i : Option NodeIn) : Except JErr Input :=
  match i with
  | none => .error .err
  | some i =>
    match i.scriptSig, i.txid with
    | some (.ok ss), .ok txid =>
      if txid.length = 32 then
        .ok { prevTxID := txid, vout := i.vout, unlocking := some ss, sequence := i.sequence }
      else .error .err
    | _, _ => .error .err

/-- nodeOutputJSON.toOutput (with the nil checks) -/
def nodeOutToOutput (o : Option NodeOut) : Except JErr Output :=
  match o with
  | none => .error .err
  | some o =>
    match o.scriptPubKey with
    | some (.ok spk) => .ok { sats := decodeAmount o.value, script := spk }
    | _ => .error .err

/-- nodeTxWrapper.UnmarshalJSON -/
def nodeTxToTx (t : NodeTx) : Except JErr Tx :=
  match t.hex with
  | some .bad => .error .err
  | some (.ok b) =>
    match parseExact b with
    | some p => .ok p.tx
    | none => .error .err
  | none => do
    let outs ← t.vout.mapM nodeOutToOutput
    let ins ← t.vin.mapM nodeInToInput
    pure { version := t.version, inputs := ins, outputs := outs, lockTime := t.lockTime }

/-- utxoNodeJSON → UTXO fields (txid, vout, script, satoshis) -/
def nodeUtxo (txid spk : HexFld) (vout : Nat) (amount : Rat) : Except JErr (Bytes × Nat × Bytes × Nat) :=
  match txid, spk with
  | .ok t, .ok s => .ok (t, vout, s, decodeAmount amount)
  | _, _ => .error .err

end GoBT.Json
