/-
  varint.go: `VarInt.Bytes`, `VarInt.Length`, `VarInt.UpperLimitInc`, `VarInt.ReadFrom`
  and the reader result type `Rd` that carries Go's byte accounting
  (`bytesRead`) on the error path.  Core Lean only.
-/
import GoBT.Basic.Bytes
namespace GoBT

/-- Result of a Go `ReadFrom` on an in-memory reader holding `bs`:
    `ok a rest` – value and the unread remainder (bytes read = `bs.length - rest.length`);
    `err n`     – an error together with the byte count the call *reports*. -/
inductive Rd (α : Type) where
  | ok (a : α) (rest : Bytes)
  | err (n : Nat)
  deriving Repr, DecidableEq

/-- sequencing with Go's accounting: the count reported by a failing sub-read is
    added to what was consumed before it (`bytesRead += n` precedes every error check). -/
@[inline] def Rd.andThen {α β : Type} (bs : Bytes) (r : Rd α) (f : α → Bytes → Rd β) : Rd β :=
  match r with
  | .err n => .err n
  | .ok a rest =>
    match f a rest with
    | .ok b r' => .ok b r'
    | .err m => .err (bs.length - rest.length + m)

/-- `io.ReadFull(r, make([]byte, k))`: a short read consumes whatever is left. -/
def readN (k : Nat) (bs : Bytes) : Rd Bytes :=
  match take? k bs with
  | some (a, r) => .ok a r
  | none => .err bs.length

/-- VarInt.Bytes -/
def varintEnc (n : Nat) : Bytes :=
  if n < 0xfd then [UInt8.ofNat n]
  else if n < 0x10000 then 0xfd :: leEnc 2 n
  else if n < 0x100000000 then 0xfe :: leEnc 4 n
  else 0xff :: leEnc 8 n

/-- VarInt.Length -/
def varintLen (n : Nat) : Nat :=
  if n < 253 then 1 else if n < 65536 then 3 else if n < 4294967296 then 5 else 9

/-- VarInt.UpperLimitInc -/
def upperLimitInc (n : Nat) : Int :=
  if n = 252 ∨ n = 65535 then 2
  else if n = 4294967295 then 4
  else if n = 18446744073709551615 then -1
  else 0

/-- VarInt.ReadFrom.  Returns the value and whether the encoding read was the
    shortest one for that value (a ghost used by the canonical-form theorem).
    On a short read of the payload the count reported is the marker byte plus
    the bytes actually obtained. -/
def varintRead (bs : Bytes) : Rd (Nat × Bool) :=
  match bs with
  | [] => .err 0
  | b :: r =>
    if b = 0xff then
      match take? 8 r with
      | some (x, r') => .ok (leDec x, decide (0x100000000 ≤ leDec x)) r'
      | none => .err (1 + r.length)
    else if b = 0xfe then
      match take? 4 r with
      | some (x, r') => .ok (leDec x, decide (0x10000 ≤ leDec x)) r'
      | none => .err (1 + r.length)
    else if b = 0xfd then
      match take? 2 r with
      | some (x, r') => .ok (leDec x, decide (0xfd ≤ leDec x)) r'
      | none => .err (1 + r.length)
    else .ok (b.toNat, true) r

/-! ### lemmas -/

theorem varintEnc_length (n : Nat) : (varintEnc n).length = varintLen n := by
  unfold varintEnc varintLen
  split
  · next h => have : n < 253 := h; simp [this]
  · next h =>
    have h1 : ¬ n < 253 := h
    split
    · next h2 => have : n < 65536 := h2; simp [h1, this]
    · next h2 =>
      have h3 : ¬ n < 65536 := h2
      split
      · next h4 => have : n < 4294967296 := h4; simp [h1, h3, this]
      · next h4 => have : ¬ n < 4294967296 := h4; simp [h1, h3, this]

theorem varintLen_mono {a b : Nat} (h : a ≤ b) : varintLen a ≤ varintLen b := by
  unfold varintLen; repeat' split
  all_goals omega

theorem varintLen_pos (n : Nat) : 1 ≤ varintLen n := by
  unfold varintLen; repeat' split
  all_goals omega

theorem varintLen_le (n : Nat) : varintLen n ≤ 9 := by
  unfold varintLen; repeat' split
  all_goals omega

/-- `UpperLimitInc` is exactly the growth of the encoding when the value is incremented
    (and -1 only at the very top of the range). -/
theorem upperLimitInc_eq (n : Nat) (h : n < 2 ^ 64 - 1) :
    upperLimitInc n = (varintLen (n + 1) : Int) - varintLen n := by
  unfold upperLimitInc varintLen
  repeat' split
  all_goals omega

private theorem u8_ofNat_toNat {n : Nat} (h : n < 256) : (UInt8.ofNat n).toNat = n := by
  simp [UInt8.toNat_ofNat', Nat.mod_eq_of_lt h]

private theorem u8_ne_of_toNat_ne {a b : UInt8} (h : a.toNat ≠ b.toNat) : a ≠ b := by
  intro e; exact h (by rw [e])

/-- reading back what `VarInt.Bytes` wrote. -/
theorem varintRead_enc (n : Nat) (h : n < 2 ^ 64) (rest : Bytes) :
    varintRead (varintEnc n ++ rest) = .ok (n, true) rest := by
  unfold varintEnc
  split
  · next h1 =>
    have h1' : n < 253 := h1
    have hn : (UInt8.ofNat n).toNat = n := u8_ofNat_toNat (by omega)
    have e1 : UInt8.ofNat n ≠ 0xff := u8_ne_of_toNat_ne (by rw [hn]; simp; omega)
    have e2 : UInt8.ofNat n ≠ 0xfe := u8_ne_of_toNat_ne (by rw [hn]; simp; omega)
    have e3 : UInt8.ofNat n ≠ 0xfd := u8_ne_of_toNat_ne (by rw [hn]; simp; omega)
    simp [varintRead, e1, e2, e3, hn]
  · next h1 =>
    have h1' : ¬ n < 253 := h1
    split
    · next h2 =>
      have h2' : n < 65536 := h2
      have hd : leDec (leEnc 2 n) = n := leDec_leEnc_of_lt (by simpa using h2')
      have : take? 2 (leEnc 2 n ++ rest) = some (leEnc 2 n, rest) := take?_append _ _ (by simp)
      simp [varintRead, this, hd]; omega
    · next h2 =>
      have h2' : ¬ n < 65536 := h2
      split
      · next h3 =>
        have h3' : n < 4294967296 := h3
        have hd : leDec (leEnc 4 n) = n := leDec_leEnc_of_lt (by simpa using h3')
        have : take? 4 (leEnc 4 n ++ rest) = some (leEnc 4 n, rest) := take?_append _ _ (by simp)
        simp [varintRead, this, hd]; omega
      · next h3 =>
        have h3' : ¬ n < 4294967296 := h3
        have hd : leDec (leEnc 8 n) = n := leDec_leEnc_of_lt (by simpa using h)
        have : take? 8 (leEnc 8 n ++ rest) = some (leEnc 8 n, rest) := take?_append _ _ (by simp)
        simp [varintRead, this, hd]; omega

/-- a successful read: the value is in range and the bytes consumed are a prefix;
    when the encoding was minimal the prefix is exactly `VarInt.Bytes` of the value. -/
theorem varintRead_ok {bs rest : Bytes} {n : Nat} {m : Bool}
    (h : varintRead bs = .ok (n, m) rest) :
    n < 2 ^ 64 ∧ ∃ pre, bs = pre ++ rest ∧ 1 ≤ pre.length ∧ (m = true → pre = varintEnc n) := by
  unfold varintRead at h
  match bs, h with
  | b :: r, h =>
    simp only at h
    split at h
    · next hb =>
      split at h
      · next x r' ht =>
        obtain ⟨hx, hl⟩ := take?_eq_some ht
        simp only [Rd.ok.injEq, Prod.mk.injEq] at h
        obtain ⟨⟨hn, hm⟩, hr⟩ := h
        subst hn hr
        have hlt := leDec_lt x
        rw [hl] at hlt
        refine ⟨by omega, b :: x, by simp [hx], by simp, ?_⟩
        intro hmin; rw [← hm] at hmin
        have hge : 0x100000000 ≤ leDec x := by simpa using hmin
        have e := leEnc_leDec x
        rw [hl] at e
        have h1 : ¬ leDec x < 0xfd := by omega
        have h2 : ¬ leDec x < 0x10000 := by omega
        have h3 : ¬ leDec x < 0x100000000 := by omega
        simp [varintEnc, h1, h2, h3, e, hb]
      · cases h
    · next hb =>
      split at h
      · next hb2 =>
        split at h
        · next x r' ht =>
          obtain ⟨hx, hl⟩ := take?_eq_some ht
          simp only [Rd.ok.injEq, Prod.mk.injEq] at h
          obtain ⟨⟨hn, hm⟩, hr⟩ := h
          subst hn hr
          have hlt := leDec_lt x
          rw [hl] at hlt
          refine ⟨by omega, b :: x, by simp [hx], by simp, ?_⟩
          intro hmin; rw [← hm] at hmin
          have hge : 0x10000 ≤ leDec x := by simpa using hmin
          have e := leEnc_leDec x
          rw [hl] at e
          have h1 : ¬ leDec x < 0xfd := by omega
          have h2 : ¬ leDec x < 0x10000 := by omega
          have h3 : leDec x < 0x100000000 := by omega
          simp [varintEnc, h1, h2, h3, e, hb2]
        · cases h
      · next hb2 =>
        split at h
        · next hb3 =>
          split at h
          · next x r' ht =>
            obtain ⟨hx, hl⟩ := take?_eq_some ht
            simp only [Rd.ok.injEq, Prod.mk.injEq] at h
            obtain ⟨⟨hn, hm⟩, hr⟩ := h
            subst hn hr
            have hlt := leDec_lt x
            rw [hl] at hlt
            refine ⟨by omega, b :: x, by simp [hx], by simp, ?_⟩
            intro hmin; rw [← hm] at hmin
            have hge : 0xfd ≤ leDec x := by simpa using hmin
            have e := leEnc_leDec x
            rw [hl] at e
            have h1 : ¬ leDec x < 0xfd := by omega
            have h2 : leDec x < 0x10000 := by omega
            simp [varintEnc, h1, h2, e, hb3]
          · cases h
        · next hb3 =>
          simp only [Rd.ok.injEq, Prod.mk.injEq] at h
          obtain ⟨⟨hn, _⟩, hr⟩ := h
          subst hn hr
          have hbl : b.toNat < 256 := UInt8.toNat_lt b
          refine ⟨by omega, [b], by simp, by simp, ?_⟩
          intro _
          have hne : b.toNat < 0xfd := by
            have a1 : b.toNat ≠ 255 := fun e => hb (by
              apply UInt8.toNat_inj.mp; simpa using e)
            have a2 : b.toNat ≠ 254 := fun e => hb2 (by
              apply UInt8.toNat_inj.mp; simpa using e)
            have a3 : b.toNat ≠ 253 := fun e => hb3 (by
              apply UInt8.toNat_inj.mp; simpa using e)
            omega
          simp [varintEnc, hne]

/-- the count reported on the error path never exceeds what was supplied. -/
theorem varintRead_err {bs : Bytes} {n : Nat} (h : varintRead bs = .err n) : n ≤ bs.length := by
  cases bs with
  | nil => simp [varintRead] at h; omega
  | cons b r =>
    simp only [varintRead] at h
    have key : ∀ k, (match take? k r with
        | some (x, r') => (Rd.ok (leDec x, decide (0 ≤ leDec x)) r' : Rd (Nat × Bool))
        | none => Rd.err (1 + r.length)) = Rd.err n → n ≤ (b :: r).length := by
      intro k hk
      split at hk
      · cases hk
      · simp only [Rd.err.injEq] at hk; simp; omega
    split at h
    · split at h
      · cases h
      · simp only [Rd.err.injEq] at h; simp; omega
    · split at h
      · split at h
        · cases h
        · simp only [Rd.err.injEq] at h; simp; omega
      · split at h
        · split at h
          · cases h
          · simp only [Rd.err.injEq] at h; simp; omega
        · cases h

theorem readN_ok {k : Nat} {bs a rest : Bytes} (h : readN k bs = .ok a rest) :
    bs = a ++ rest ∧ a.length = k := by
  unfold readN at h
  split at h
  · next a' r' ht =>
    simp only [Rd.ok.injEq] at h
    obtain ⟨h1, h2⟩ := h; subst h1 h2
    exact take?_eq_some ht
  · cases h

theorem readN_err {k : Nat} {bs : Bytes} {n : Nat} (h : readN k bs = .err n) : n ≤ bs.length := by
  unfold readN at h
  split at h
  · cases h
  · simp only [Rd.err.injEq] at h; omega

theorem readN_append {k : Nat} (a rest : Bytes) (h : a.length = k) :
    readN k (a ++ rest) = .ok a rest := by
  simp [readN, take?_append a rest h]

end GoBT
