/-
  Basic byte-level vocabulary shared by every model: `Bytes`, little-endian
  integers (encoding/binary), hex (encoding/hex), and `take?` (io.ReadFull on a
  byte slice).  Core Lean only: the driver executable imports this file.
-/
namespace GoBT

abbrev Bytes := List UInt8

/-- `leEnc k n`: the `k` low-order bytes of `n`, little endian
    (binary.LittleEndian.PutUintXX after Go's truncating conversion). -/
def leEnc : Nat → Nat → Bytes
  | 0, _ => []
  | k + 1, n => UInt8.ofNat (n % 256) :: leEnc k (n / 256)

/-- value of a little-endian byte string (binary.LittleEndian.UintXX). -/
def leDec : Bytes → Nat
  | [] => 0
  | b :: bs => b.toNat + 256 * leDec bs

/-- big-endian value (binary.BigEndian.UintXX). -/
def beDec (bs : Bytes) : Nat := leDec bs.reverse

/-- `take? k bs`: io.ReadFull of `k` bytes; `none` on a short read. -/
def take? (k : Nat) (bs : Bytes) : Option (Bytes × Bytes) :=
  if bs.length < k then none else some (bs.take k, bs.drop k)

/-- the same without walking the whole remainder to learn its length (the compiled driver uses this one:
    `csimp` below replaces `take?` by it on the strength of the proof, with no effect on the logic) -/
def take?Fast (k : Nat) (bs : Bytes) : Option (Bytes × Bytes) :=
  let a := bs.take k
  if a.length < k then none else some (a, bs.drop k)

@[csimp] theorem take?_eq_take?Fast : @take? = @take?Fast := by
  funext k bs
  unfold take? take?Fast
  simp only [List.length_take]
  by_cases h : bs.length < k
  · have : min k bs.length < k := by omega
    simp [h, this]
  · have : ¬ min k bs.length < k := by omega
    simp [h, this]

@[simp] theorem leEnc_length (k n : Nat) : (leEnc k n).length = k := by
  induction k generalizing n with
  | zero => rfl
  | succ k ih => simp [leEnc, ih]

theorem leDec_lt (bs : Bytes) : leDec bs < 256 ^ bs.length := by
  induction bs with
  | nil => simp [leDec]
  | cons b bs ih =>
    have hb : b.toNat < 256 := UInt8.toNat_lt b
    simp only [leDec, List.length_cons, Nat.pow_succ]
    omega

theorem leDec_leEnc (k n : Nat) : leDec (leEnc k n) = n % 256 ^ k := by
  induction k generalizing n with
  | zero => simp [leEnc, leDec, Nat.mod_one]
  | succ k ih =>
    simp only [leEnc, leDec, ih]
    have h1 : (UInt8.ofNat (n % 256)).toNat = n % 256 := by
      simp [UInt8.toNat_ofNat']
    rw [h1, Nat.pow_succ, Nat.mul_comm (256 ^ k) 256, Nat.mod_mul]

theorem leDec_leEnc_of_lt {k n : Nat} (h : n < 256 ^ k) : leDec (leEnc k n) = n := by
  rw [leDec_leEnc, Nat.mod_eq_of_lt h]

theorem leEnc_leDec (bs : Bytes) : leEnc bs.length (leDec bs) = bs := by
  induction bs with
  | nil => rfl
  | cons b bs ih =>
    have hb : b.toNat < 256 := UInt8.toNat_lt b
    simp only [List.length_cons, leEnc, leDec]
    have h1 : (b.toNat + 256 * leDec bs) % 256 = b.toNat := by omega
    have h2 : (b.toNat + 256 * leDec bs) / 256 = leDec bs := by omega
    rw [h1, h2, ih]
    simp

@[simp] theorem take?_append_length (a b : Bytes) : take? a.length (a ++ b) = some (a, b) := by
  simp [take?]

theorem take?_append {k : Nat} (a b : Bytes) (h : a.length = k) :
    take? k (a ++ b) = some (a, b) := by
  subst h; simp

theorem take?_eq_some {k : Nat} {bs a r : Bytes} (h : take? k bs = some (a, r)) :
    bs = a ++ r ∧ a.length = k := by
  unfold take? at h
  split at h
  · cases h
  · next hlt =>
    simp only [Option.some.injEq, Prod.mk.injEq] at h
    obtain ⟨h1, h2⟩ := h
    subst h1 h2
    simp only [List.take_append_drop, List.length_take, true_and]
    omega

theorem take?_eq_none {k : Nat} {bs : Bytes} : take? k bs = none ↔ bs.length < k := by
  unfold take?; split <;> simp_all

/-! ### hex (encoding/hex): lower-case output, either case accepted on input -/

def hexDigit (n : Nat) : Char :=
  if n < 10 then Char.ofNat (48 + n) else Char.ofNat (87 + n)

def hexEnc (bs : Bytes) : String :=
  String.ofList (bs.flatMap fun b => [hexDigit (b.toNat / 16), hexDigit (b.toNat % 16)])

def hexVal (c : Char) : Option Nat :=
  if '0' ≤ c ∧ c ≤ '9' then some (c.toNat - 48)
  else if 'a' ≤ c ∧ c ≤ 'f' then some (c.toNat - 87)
  else if 'A' ≤ c ∧ c ≤ 'F' then some (c.toNat - 55)
  else none

def hexDecChars : List Char → Option Bytes
  | [] => some []
  | [_] => none
  | a :: b :: rest => do
    let x ← hexVal a
    let y ← hexVal b
    let r ← hexDecChars rest
    pure (UInt8.ofNat (16 * x + y) :: r)

def hexDec (s : String) : Option Bytes := hexDecChars s.toList

end GoBT
