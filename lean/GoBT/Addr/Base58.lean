/-
  go-bk/base58 (dependency model): Encode / Decode over the Bitcoin alphabet, as arithmetic on the
  big-endian value plus the leading-zero convention.  Core Lean only.
-/
import GoBT.Basic.Bytes
namespace GoBT.Addr
open GoBT

def alphabet : List Char := "123456789ABCDEFGHJKLMNPQRSTUVWXYZabcdefghijkmnopqrstuvwxyz".toList

/-- index of a character in the alphabet (`b58[c]`, 255 = not a base58 character) -/
def b58idx (c : Char) : Option Nat :=
  let i := alphabet.idxOf c
  if i < 58 then some i else none

def b58chr (d : Nat) : Char := alphabet.getD d '1'

/-- big-endian value of a byte string -/
def beNat : Bytes → Nat
  | bs => bs.foldl (fun acc b => acc * 256 + b.toNat) 0

/-- minimal big-endian bytes of a number (`big.Int.Bytes`): empty for zero -/
def natBytesAux : Nat → Nat → Bytes → Bytes
  | 0, _, acc => acc
  | fuel + 1, n, acc => if n = 0 then acc else natBytesAux fuel (n / 256) (UInt8.ofNat (n % 256) :: acc)

def natBytes (n : Nat) : Bytes := natBytesAux (n.log2 / 8 + 2) n []

/-- base-58 digits, most significant first (empty for zero) -/
def digits58Aux : Nat → Nat → List Nat → List Nat
  | 0, _, acc => acc
  | fuel + 1, n, acc => if n = 0 then acc else digits58Aux fuel (n / 58) (n % 58 :: acc)

def digits58 (n : Nat) : List Nat := digits58Aux (n.log2 / 5 + 2) n []

/-- number of leading elements equal to `z` -/
def leading {α : Type} [BEq α] (z : α) : List α → Nat
  | [] => 0
  | a :: as => if a == z then leading z as + 1 else 0

/-- base58.Encode -/
def b58enc (bs : Bytes) : List Char :=
  List.replicate (leading (0 : UInt8) bs) '1' ++ (digits58 (beNat bs)).map b58chr

/-- value of a base-58 digit string -/
def val58 (ds : List Nat) : Nat := ds.foldl (fun acc d => acc * 58 + d) 0

/-- base58.Decode: any character outside the alphabet yields the empty result -/
def b58dec (s : List Char) : Bytes :=
  match s.mapM b58idx with
  | none => []
  | some ds => List.replicate (leading '1' s) 0 ++ natBytes (val58 ds)

end GoBT.Addr
