/-
  ValidateAddress accepts every Base58Check address the library derives: the converse of
  `C15.validate_accepts_only_base58check`.  The 25-byte accumulate-and-carry decoder (`set58`) run on the Base58 text of
  25 bytes returns their big-endian value without overflowing, and re-encoding that value gives the text back.
-/
import GoBT.Addr.Address
import GoBT.Addr.Base58Lemmas
namespace GoBT.Addr
open GoBT

/-- one step of a25.set58 -/
def set58Step (acc : Nat) (c : Char) : Except AErr Nat :=
  match b58idx c with
  | none => .error .badChar
  | some d =>
    let n := acc * 58 + d
    if n ≥ 256 ^ 25 then .error .tooLong else .ok n

theorem set58_eq (s : List Char) : set58 s = s.foldlM set58Step 0 := rfl

theorem set58_ones (z : Nat) : (List.replicate z '1').foldlM set58Step 0 = .ok 0 := by
  induction z with
  | zero => rfl
  | succ k ih =>
    rw [List.replicate_succ, List.foldlM_cons]
    have : set58Step 0 '1' = .ok 0 := by
      have hi : b58idx '1' = some 0 := by decide
      simp [set58Step, hi]
    rw [this]; exact ih

theorem foldl58 (ds : List Nat) (acc : Nat) :
    ds.foldl (fun a d => a * 58 + d) acc = acc * 58 ^ ds.length + val58 ds := by
  induction ds generalizing acc with
  | nil => simp [val58]
  | cons d ds ih =>
    simp only [List.foldl_cons, List.length_cons]
    rw [ih, val58_cons, Nat.pow_succ]
    have : (acc * 58 + d) * 58 ^ ds.length = acc * (58 ^ ds.length * 58) + d * 58 ^ ds.length := by
      rw [Nat.add_mul, Nat.mul_assoc, Nat.mul_comm 58]
    omega

/-- the digit loop never overflows when the final value fits into 25 bytes, and returns that value -/
theorem set58_digits (ds : List Nat) (hd : ∀ d ∈ ds, d < 58) (acc : Nat)
    (hfin : acc * 58 ^ ds.length + val58 ds < 256 ^ 25) :
    (ds.map b58chr).foldlM set58Step acc = .ok (acc * 58 ^ ds.length + val58 ds) := by
  induction ds generalizing acc with
  | nil => simp [val58, pure, Except.pure]
  | cons d ds ih =>
    have hdlt : d < 58 := hd d (by simp)
    simp only [List.map_cons, List.foldlM_cons]
    have e : acc * 58 ^ (d :: ds).length + val58 (d :: ds) = (acc * 58 + d) * 58 ^ ds.length + val58 ds := by
      rw [val58_cons, List.length_cons, Nat.pow_succ, Nat.add_mul, Nat.mul_assoc, Nat.mul_comm 58]
      omega
    rw [e] at hfin ⊢
    have hpos : 0 < 58 ^ ds.length := Nat.pow_pos (by decide)
    have hstep : acc * 58 + d < 256 ^ 25 := by
      have : acc * 58 + d ≤ (acc * 58 + d) * 58 ^ ds.length := Nat.le_mul_of_pos_right _ hpos
      omega
    have : set58Step acc (b58chr d) = .ok (acc * 58 + d) := by
      unfold set58Step
      rw [b58idx_b58chr d hdlt]
      simp only [ge_iff_le]
      rw [if_neg (by omega)]
    rw [this]
    exact ih (fun x hx => hd x (by simp [hx])) (acc * 58 + d) hfin

theorem beNat_eq_leDec_reverse (a : Bytes) : beNat a = leDec a.reverse := by
  suffices h : ∀ (r : Bytes), beNat r.reverse = leDec r by
    have := h a.reverse; rwa [List.reverse_reverse] at this
  intro r
  induction r with
  | nil => rfl
  | cons b xs ih =>
    rw [List.reverse_cons, beNat_concat, ih, leDec]
    omega

theorem beNat_lt (a : Bytes) : beNat a < 256 ^ a.length := by
  rw [beNat_eq_leDec_reverse]
  have := leDec_lt a.reverse
  simpa using this

theorem leEnc_beNat_reverse (a : Bytes) : (leEnc a.length (beNat a)).reverse = a := by
  rw [beNat_eq_leDec_reverse]
  have := leEnc_leDec a.reverse
  rw [List.length_reverse] at this
  rw [this, List.reverse_reverse]

theorem digits58_lt (n : Nat) : ∀ d ∈ digits58 n, d < 58 := by
  intro d hd
  by_cases hn : n = 0
  · subst hn; rw [digits58_zero] at hd; simp at hd
  · obtain ⟨d0, rest, he, _, h2, h3⟩ := digits58_shape n (by omega)
    rw [he] at hd
    rcases List.mem_cons.mp hd with h | h
    · rw [h]; exact h2
    · exact h3 d h

/-- the decoder run on the Base58 text of any 25 bytes gives their big-endian value -/
theorem set58_b58enc (a : Bytes) (hl : a.length = 25) : set58 (b58enc a) = .ok (beNat a) := by
  rw [set58_eq]
  unfold b58enc
  rw [List.foldlM_append, set58_ones]
  show (List.map b58chr (digits58 (beNat a))).foldlM set58Step 0 = _
  have hN : beNat a < 256 ^ 25 := by have := beNat_lt a; rwa [hl] at this
  have := set58_digits (digits58 (beNat a)) (digits58_lt _) 0 (by rw [val58_digits58]; simpa using hN)
  rw [this, val58_digits58]; simp

/-- **Every derived address validates.**  For either supported version byte and every 20-byte hash, the Base58Check
    text the library produces is accepted by ValidateAddress (given a checksum hash of at least four bytes). -/
theorem validA58_b58check (H : Hash) (hH : ∀ b, 4 ≤ (H b).length) (v : UInt8) (hv : v = verMain ∨ v = verTest)
    (h20 : Bytes) (hl : h20.length = 20) : validA58 H (b58check H (v :: h20)) = .ok () := by
  have hck : (cksum H (v :: h20)).length = 4 := by
    have := hH (v :: h20); simp [cksum]; omega
  have hal : (v :: h20 ++ cksum H (v :: h20)).length = 25 := by simp [hl, hck]
  unfold validA58 b58check
  rw [set58_b58enc _ hal]
  simp only
  have e := leEnc_beNat_reverse (v :: h20 ++ cksum H (v :: h20))
  rw [hal] at e
  rw [e]
  have h1 : (v :: h20 ++ cksum H (v :: h20)).headD 0 = v := rfl
  have h2 : (v :: h20 ++ cksum H (v :: h20)).take 21 = v :: h20 := by
    have : (v :: h20).length = 21 := by simp [hl]
    rw [show v :: h20 ++ cksum H (v :: h20) = (v :: h20) ++ cksum H (v :: h20) from rfl, List.take_left' this]
  have h3 : (v :: h20 ++ cksum H (v :: h20)).drop 21 = cksum H (v :: h20) := by
    have : (v :: h20).length = 21 := by simp [hl]
    rw [show v :: h20 ++ cksum H (v :: h20) = (v :: h20) ++ cksum H (v :: h20) from rfl, List.drop_left' this]
  rw [h1, h2, h3]
  have hvv : ¬ (v ≠ verMain ∧ v ≠ verTest) := by
    rcases hv with h | h <;> simp [h]
  simp [hvv]

end GoBT.Addr
