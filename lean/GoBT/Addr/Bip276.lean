/-
  bscript/bip276.go: EncodeBIP276 / DecodeBIP276 (the regular expression as an explicit splitter) and the
  bitcoin-script branch of ValidateAddress.  The double SHA-256 is a parameter.  Core Lean only.
-/
import GoBT.Basic.Bytes
namespace GoBT.Addr
open GoBT

structure Bip276 where
  pfx : List Char
  version : Nat
  network : Nat
  data : Bytes
  deriving Repr, DecidableEq

def hexChars (bs : Bytes) : List Char := (hexEnc bs).toList

/-- `%.2x` of a value below 256 -/
def hex2 (n : Nat) : List Char := [hexDigit (n / 16), hexDigit (n % 16)]

/-- createBIP276: payload text and checksum text -/
def bip276Payload (b : Bip276) : List Char :=
  -- network first, then version: the order the code writes (the BIP specifies version first; see DESIGN.md)
  b.pfx ++ [':'] ++ hex2 b.network ++ hex2 b.version ++ hexChars b.data

def bip276Checksum (H : Bytes → Bytes) (b : Bip276) : List Char :=
  hexChars ((H ((bip276Payload b).map fun c => UInt8.ofNat c.toNat)).take 4)

/-- EncodeBIP276: `none` = "ERROR" -/
def encodeBip276 (H : Bytes → Bytes) (b : Bip276) : Option (List Char) :=
  if b.version = 0 ∨ b.version > 255 ∨ b.network = 0 ∨ b.network > 255 then none
  else some (bip276Payload b ++ bip276Checksum H b)

def isHexChar (c : Char) : Bool := (hexVal c).isSome

inductive BErr | noMatch | badData | checksum
  deriving Repr, DecidableEq

/-- split at the last ':' -/
def splitLastColon (s : List Char) : Option (List Char × List Char) :=
  let r := s.reverse
  let tail := r.takeWhile (· ≠ ':')
  if tail.length = r.length then none
  else some ((r.drop (tail.length + 1)).reverse, tail.reverse)

/-- DecodeBIP276.  The regular expression
    `^(.+?):([0-9A-Fa-f]{2})([0-9A-Fa-f]{2})([0-9A-Fa-f]*)([0-9A-Fa-f]{8})$`
    can only match at the last colon (anything after an earlier colon contains a ':' and is not hex). -/
def decodeBip276 (H : Bytes → Bytes) (text : List Char) : Except BErr Bip276 :=
  match splitLastColon text with
  | none => .error .noMatch
  | some (pfx, rest) =>
    if pfx.isEmpty ∨ pfx.any (· = '\n') ∨ rest.length < 12 ∨ ¬ rest.all isHexChar then .error .noMatch
    else
      match hexDecChars (rest.take 2), hexDecChars ((rest.drop 2).take 2) with
      | some [n], some [v] =>
        let dataTxt := (rest.drop 4).take (rest.length - 12)
        let ck := rest.drop (rest.length - 8)
        match hexDecChars dataTxt with
        | none => .error .badData
        | some d =>
          let b : Bip276 := { pfx := pfx, version := v.toNat, network := n.toNat, data := d }
          if ck ≠ bip276Checksum H b then .error .checksum else .ok b
      | _, _ => .error .noMatch

end GoBT.Addr
