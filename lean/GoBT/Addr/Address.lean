/-
  bscript/address.go, addressvalidation.go and the P2PKH constructors of script.go.
  The double SHA-256 and HASH160 are parameters.  Core Lean only.
-/
import GoBT.Addr.Base58
import GoBT.Script.Classify
namespace GoBT.Addr
open GoBT

abbrev Hash := Bytes → Bytes

def verMain : UInt8 := 0x00
def verTest : UInt8 := 0x6f

/-- checksum(input) = first four bytes of the double SHA-256 -/
def cksum (H : Hash) (b : Bytes) : Bytes := (H b).take 4

/-- Base58EncodeMissingChecksum -/
def b58check (H : Hash) (payload : Bytes) : List Char := b58enc (payload ++ cksum H payload)

/-- NewAddressFromPublicKeyHash(hash, mainnet).AddressString -/
def encodeAddress (H : Hash) (mainnet : Bool) (h : Bytes) : List Char :=
  b58check H ((if mainnet then verMain else verTest) :: h)

inductive AErr | length | unsupported | checksum | badChar | tooLong | version | nonCanonical
  deriving Repr, DecidableEq

/-- addressToPubKeyHashStr / NewAddressFromString: Base58 decode, 25 bytes, supported version byte;
    returns the 20-byte hash.  NOTE: the code does not verify the 4-byte checksum (known finding F-C15-01;
    the repository's own test-suite pays to addresses with wrong checksums, so it cannot be repaired here). -/
def addressToPKH (_H : Hash) (addr : List Char) : Except AErr Bytes :=
  let d := b58dec addr
  if d.length ≠ 25 then .error .length
  else
    let v := d.headD 0
    if v = verMain ∨ v = verTest then .ok ((d.drop 1).take 20)
    else .error .unsupported

/-- a25.set58: accumulate the base-58 number into 25 bytes (big endian); `none`-style errors explicit -/
def set58 (s : List Char) : Except AErr Nat :=
  s.foldlM (fun (acc : Nat) c =>
    match b58idx c with
    | none => .error .badChar
    | some d =>
      let n := acc * 58 + d
      if n ≥ 256 ^ 25 then .error .tooLong else .ok n) 0

/-- validA58: 25-byte value, supported version, checksum, and the canonical (re-encodable) form -/
def validA58 (H : Hash) (s : List Char) : Except AErr Unit :=
  match set58 s with
  | .error e => .error e
  | .ok n =>
    let a := leEnc 25 n |>.reverse          -- the 25 bytes, big endian
    let v := a.headD 0
    if v ≠ verMain ∧ v ≠ verTest then .error .version
    else if a.drop 21 ≠ cksum H (a.take 21) then .error .checksum
    else if b58enc a ≠ s then .error .nonCanonical
    else .ok ()

/-- NewP2PKHFromPubKeyHash: the canonical 25-byte script (for a 20-byte hash) -/
def p2pkhScript (h : Bytes) : Bytes := [0x76, 0xa9, 0x14] ++ h ++ [0x88, 0xac]

/-- NewP2PKHFromAddress -/
def p2pkhFromAddress (H : Hash) (addr : List Char) : Except AErr Bytes :=
  match addressToPKH H addr with
  | .ok h => .ok ([0x76, 0xa9] ++ [UInt8.ofNat h.length] ++ h ++ [0x88, 0xac])
  | .error e => .error e

end GoBT.Addr
