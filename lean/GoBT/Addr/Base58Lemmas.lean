/-
  Base58 (go-bk, dependency model): Decode (Encode bs) = bs for every byte string.
-/
import GoBT.Addr.Base58
namespace GoBT.Addr
open GoBT

/-! ### positional values -/

theorem foldl_pos (b : Nat) (ds : List Nat) (a : Nat) :
    ds.foldl (fun acc d => acc * b + d) a = a * b ^ ds.length + ds.foldl (fun acc d => acc * b + d) 0 := by
  induction ds generalizing a with
  | nil => simp
  | cons d rest ih =>
    simp only [List.foldl_cons, List.length_cons]
    rw [ih (a * b + d), ih (0 * b + d)]
    simp only [Nat.zero_mul, Nat.zero_add, Nat.pow_succ]
    rw [Nat.add_mul, Nat.mul_assoc, Nat.mul_comm b (b ^ rest.length), Nat.add_assoc]

theorem val58_append (a b : List Nat) : val58 (a ++ b) = val58 a * 58 ^ b.length + val58 b := by
  unfold val58
  rw [List.foldl_append, foldl_pos 58 b]

theorem val58_cons (d : Nat) (ds : List Nat) : val58 (d :: ds) = d * 58 ^ ds.length + val58 ds := by
  have := val58_append [d] ds
  simpa [val58] using this

theorem val58_replicate_zero (z : Nat) (ds : List Nat) : val58 (List.replicate z 0 ++ ds) = val58 ds := by
  induction z with
  | zero => simp
  | succ k ih => rw [List.replicate_succ, List.cons_append, val58_cons, ih]; simp

/-- the digit generator is a positional expansion -/
theorem val58_digits58Aux (fuel : Nat) : ∀ (n : Nat) (acc : List Nat), n < 58 ^ fuel →
    val58 (digits58Aux fuel n acc) = n * 58 ^ acc.length + val58 acc := by
  induction fuel with
  | zero => intro n acc h; simp at h; subst h; simp [digits58Aux]
  | succ f ih =>
    intro n acc h
    unfold digits58Aux
    split
    · next h0 => subst h0; simp
    · rw [ih (n / 58) (n % 58 :: acc) (by rw [Nat.pow_succ] at h; omega), val58_cons]
      simp only [List.length_cons, Nat.pow_succ]
      have := Nat.div_add_mod n 58
      calc n / 58 * (58 ^ acc.length * 58) + (n % 58 * 58 ^ acc.length + val58 acc)
          = (58 * (n / 58) + n % 58) * 58 ^ acc.length + val58 acc := by
            rw [Nat.add_mul, Nat.mul_comm 58 (n / 58), Nat.mul_assoc, Nat.mul_comm 58 (58 ^ acc.length), Nat.add_assoc]
        _ = n * 58 ^ acc.length + val58 acc := by rw [this]

theorem lt_pow58_fuel (n : Nat) : n < 58 ^ (n.log2 / 5 + 2) := by
  have h1 : n < 2 ^ (n.log2 + 1) := Nat.lt_log2_self
  have h2 : 2 ^ (n.log2 + 1) ≤ 2 ^ (5 * (n.log2 / 5 + 2)) := Nat.pow_le_pow_right (by omega) (by omega)
  have h3 : 2 ^ (5 * (n.log2 / 5 + 2)) = 32 ^ (n.log2 / 5 + 2) := by rw [Nat.pow_mul]
  have h4 : 32 ^ (n.log2 / 5 + 2) ≤ 58 ^ (n.log2 / 5 + 2) := Nat.pow_le_pow_left (by omega) _
  omega

theorem val58_digits58 (n : Nat) : val58 (digits58 n) = n := by
  unfold digits58
  rw [val58_digits58Aux _ n [] (lt_pow58_fuel n)]
  simp [val58]

/-- digits are below 58 and, for a positive number, the first one is not zero -/
theorem digits58Aux_shape (fuel : Nat) : ∀ (n : Nat) (acc : List Nat), n < 58 ^ fuel → 0 < n →
    ∃ d rest, digits58Aux fuel n acc = d :: rest ++ acc ∧ d ≠ 0 ∧ d < 58 ∧ ∀ x ∈ rest, x < 58 := by
  induction fuel with
  | zero => intro n acc h hp; simp at h; omega
  | succ f ih =>
    intro n acc h hp
    unfold digits58Aux
    have hn0 : n ≠ 0 := by omega
    simp only [hn0, ↓reduceIte]
    by_cases hq : n / 58 = 0
    · refine ⟨n % 58, [], ?_, ?_, Nat.mod_lt _ (by omega), by simp⟩
      · cases f with
        | zero => simp [digits58Aux, hq]
        | succ g => simp [digits58Aux, hq]
      · omega
    · obtain ⟨d, rest, he, hd0, hd, hr⟩ := ih (n / 58) (n % 58 :: acc) (by rw [Nat.pow_succ] at h; omega) (by omega)
      refine ⟨d, rest ++ [n % 58], ?_, hd0, hd, ?_⟩
      · rw [he]; simp
      · intro x hx
        simp only [List.mem_append, List.mem_singleton] at hx
        rcases hx with hx | hx
        · exact hr x hx
        · subst hx; exact Nat.mod_lt _ (by omega)

theorem digits58_zero : digits58 0 = [] := by
  simp [digits58, digits58Aux]

theorem digits58_shape (n : Nat) (hp : 0 < n) :
    ∃ d rest, digits58 n = d :: rest ∧ d ≠ 0 ∧ d < 58 ∧ ∀ x ∈ rest, x < 58 := by
  obtain ⟨d, rest, he, h1, h2, h3⟩ := digits58Aux_shape _ n [] (lt_pow58_fuel n) hp
  exact ⟨d, rest, by simpa [digits58] using he, h1, h2, h3⟩

/-! ### the alphabet -/

theorem b58idx_b58chr (d : Nat) (h : d < 58) : b58idx (b58chr d) = some d := by
  have : ∀ k : Fin 58, b58idx (b58chr k.val) = some k.val := by decide
  exact this ⟨d, h⟩

theorem b58chr_eq_one_iff (d : Nat) (h : d < 58) : b58chr d = '1' ↔ d = 0 := by
  have : ∀ k : Fin 58, b58chr k.val = '1' ↔ k.val = 0 := by decide
  exact this ⟨d, h⟩

/-! ### big-endian bytes -/

theorem beNat_eq (bs : Bytes) : beNat bs = (bs.map UInt8.toNat).foldl (fun acc d => acc * 256 + d) 0 := by
  unfold beNat
  rw [List.foldl_map]

theorem beNat_append (a b : Bytes) : beNat (a ++ b) = beNat a * 256 ^ b.length + beNat b := by
  simp only [beNat_eq, List.map_append, List.foldl_append]
  rw [foldl_pos 256 (b.map UInt8.toNat)]
  simp

theorem beNat_cons (x : UInt8) (xs : Bytes) : beNat (x :: xs) = x.toNat * 256 ^ xs.length + beNat xs := by
  have := beNat_append [x] xs
  simpa [beNat] using this

theorem beNat_concat (xs : Bytes) (b : UInt8) : beNat (xs ++ [b]) = beNat xs * 256 + b.toNat := by
  rw [beNat_append]; simp [beNat]

theorem beNat_replicate_zero (z : Nat) (r : Bytes) : beNat (List.replicate z 0 ++ r) = beNat r := by
  induction z with
  | zero => simp
  | succ k ih => rw [List.replicate_succ, List.cons_append, beNat_cons, ih]; simp

theorem beNat_lower (x : UInt8) (xs : Bytes) (hx : x ≠ 0) : 256 ^ xs.length ≤ beNat (x :: xs) := by
  rw [beNat_cons]
  have : 1 ≤ x.toNat := by
    rcases Nat.eq_zero_or_pos x.toNat with h | h
    · exact absurd (UInt8.toNat_inj.mp (by simpa using h)) hx
    · exact h
  calc 256 ^ xs.length = 1 * 256 ^ xs.length := by simp
    _ ≤ x.toNat * 256 ^ xs.length := Nat.mul_le_mul_right _ this
    _ ≤ _ := Nat.le_add_right _ _

/-- a byte string without a leading zero is the minimal big-endian form of its value -/
theorem natBytesAux_beNat (fuel : Nat) : ∀ (r acc : Bytes), r.length ≤ fuel → (r = [] ∨ r.head? ≠ some 0) →
    natBytesAux fuel (beNat r) acc = r ++ acc := by
  induction fuel with
  | zero =>
    intro r acc hl _
    have : r = [] := by cases r with | nil => rfl | cons _ _ => simp at hl
    subst this; simp [natBytesAux, beNat]
  | succ f ih =>
    intro r acc hl hh
    rcases List.eq_nil_or_concat r with rfl | ⟨r', b, hrb⟩
    · simp [natBytesAux, beNat]
    · -- r = r' ++ [b]
      rw [List.concat_eq_append] at hrb
      subst hrb
      have hb : b.toNat < 256 := UInt8.toNat_lt b
      have hne : beNat (r' ++ [b]) ≠ 0 := by
        cases hr' : r' with
        | nil =>
          subst hr'
          rcases hh with h | h
          · simp at h
          · simp only [List.nil_append, List.head?_cons, ne_eq, Option.some.injEq] at h
            simp only [List.nil_append, beNat, List.foldl_cons, List.foldl_nil]
            intro e
            apply h
            apply UInt8.toNat_inj.mp
            simpa using e
        | cons x xs =>
          subst hr'
          rcases hh with h | h
          · simp at h
          · simp only [List.cons_append, List.head?_cons, ne_eq, Option.some.injEq] at h
            have := beNat_lower x (xs ++ [b]) h
            have hp : 0 < 256 ^ (xs ++ [b]).length := Nat.pow_pos (by omega)
            simp only [List.cons_append]
            omega
      unfold natBytesAux
      simp only [hne, ↓reduceIte]
      rw [beNat_concat]
      have e1 : (beNat r' * 256 + b.toNat) / 256 = beNat r' := by omega
      have e2 : (beNat r' * 256 + b.toNat) % 256 = b.toNat := by omega
      have e3 : UInt8.ofNat b.toNat = b := by
        apply UInt8.toNat_inj.mp; simp [Nat.mod_eq_of_lt hb]
      rw [e1, e2, e3]
      have hl' : r'.length ≤ f := by simp at hl; omega
      have hh' : r' = [] ∨ r'.head? ≠ some 0 := by
        cases r' with
        | nil => exact Or.inl rfl
        | cons x xs =>
          right
          rcases hh with h | h
          · simp at h
          · simpa using h
      rw [ih r' (b :: acc) hl' hh']
      simp

theorem natBytes_beNat (r : Bytes) (hh : r = [] ∨ r.head? ≠ some 0) : natBytes (beNat r) = r := by
  unfold natBytes
  have hfuel : r.length ≤ (beNat r).log2 / 8 + 2 := by
    cases r with
    | nil => simp
    | cons x xs =>
      have hx : x ≠ 0 := by
        rcases hh with h | h
        · simp at h
        · simpa using h
      have hlow := beNat_lower x xs hx
      have hpos : beNat (x :: xs) ≠ 0 := by
        have : 0 < 256 ^ xs.length := Nat.pow_pos (by omega)
        omega
      have h2 : 2 ^ (8 * xs.length) ≤ beNat (x :: xs) := by
        have : (256 : Nat) ^ xs.length = 2 ^ (8 * xs.length) := by
          rw [show (256 : Nat) = 2 ^ 8 by rfl, ← Nat.pow_mul]
        omega
      have := (Nat.le_log2 hpos).mpr h2
      simp only [List.length_cons]
      omega
  have := natBytesAux_beNat _ r [] hfuel hh
  simpa using this

/-! ### leading zeros / leading '1's -/

theorem leading_split (bs : Bytes) :
    ∃ rest, bs = List.replicate (leading (0 : UInt8) bs) 0 ++ rest ∧ (rest = [] ∨ rest.head? ≠ some 0) := by
  induction bs with
  | nil => exact ⟨[], by simp [leading], Or.inl rfl⟩
  | cons x xs ih =>
    by_cases hx : x = 0
    · subst hx
      obtain ⟨rest, he, hr⟩ := ih
      refine ⟨rest, ?_, hr⟩
      simp only [leading, beq_self_eq_true, ↓reduceIte, List.replicate_succ, List.cons_append]
      rw [← he]
    · refine ⟨x :: xs, ?_, Or.inr (by simpa using hx)⟩
      have : (x == (0 : UInt8)) = false := by simpa using hx
      simp [leading, this]

theorem leading_replicate_append (z : Nat) (l : List Char) (hl : l = [] ∨ l.head? ≠ some '1') :
    leading '1' (List.replicate z '1' ++ l) = z := by
  induction z with
  | zero =>
    simp only [List.replicate_zero, List.nil_append]
    rcases hl with rfl | h
    · rfl
    · cases l with
      | nil => rfl
      | cons c cs =>
        have : (c == '1') = false := by
          simp only [List.head?_cons, ne_eq, Option.some.injEq] at h
          simpa using h
        simp [leading, this]
  | succ k ih => simp [List.replicate_succ, leading, ih]

theorem mapM_b58idx_digits (ds : List Nat) (h : ∀ d ∈ ds, d < 58) : (ds.map b58chr).mapM b58idx = some ds := by
  induction ds with
  | nil => rfl
  | cons d rest ih =>
    simp only [List.map_cons, List.mapM_cons, b58idx_b58chr d (h d (by simp)), ih (fun x hx => h x (by simp [hx]))]
    rfl

theorem mapM_b58idx_ones (z : Nat) : (List.replicate z '1').mapM b58idx = some (List.replicate z 0) := by
  induction z with
  | zero => rfl
  | succ k ih =>
    have : b58idx '1' = some 0 := by decide
    simp only [List.replicate_succ, List.mapM_cons, this, ih]
    rfl

theorem mapM_append_some {α β : Type} (f : α → Option β) (a b : List α) (ra rb : List β)
    (ha : a.mapM f = some ra) (hb : b.mapM f = some rb) : (a ++ b).mapM f = some (ra ++ rb) := by
  induction a generalizing ra with
  | nil => simp only [List.mapM_nil] at ha; cases ha; simpa using hb
  | cons x xs ih =>
    simp only [List.mapM_cons] at ha
    cases hx : f x with
    | none => rw [hx] at ha; cases ha
    | some y =>
      rw [hx] at ha
      cases hxs : xs.mapM f with
      | none => rw [hxs] at ha; cases ha
      | some ys =>
        rw [hxs] at ha
        cases ha
        simp only [List.cons_append, List.mapM_cons, hx, ih ys hxs]
        rfl

/-- **Base58 round trip**: decoding the encoding of any byte string gives the byte string back. -/
theorem b58dec_b58enc (bs : Bytes) : b58dec (b58enc bs) = bs := by
  obtain ⟨rest, hsplit, hrest⟩ := leading_split bs
  have hn : beNat bs = beNat rest := by
    conv => lhs; rw [hsplit]
    exact beNat_replicate_zero _ _
  unfold b58enc b58dec
  -- the digits
  have hdig : ∀ d ∈ digits58 (beNat bs), d < 58 := by
    intro d hd
    rcases Nat.eq_zero_or_pos (beNat bs) with h0 | hp
    · rw [h0, digits58_zero] at hd; cases hd
    · obtain ⟨d0, r, he, _, hd0, hr⟩ := digits58_shape _ hp
      rw [he] at hd
      simp only [List.mem_cons] at hd
      rcases hd with rfl | hd
      · exact hd0
      · exact hr d hd
  have hmap := mapM_append_some b58idx _ _ _ _ (mapM_b58idx_ones (leading (0 : UInt8) bs))
    (mapM_b58idx_digits (digits58 (beNat bs)) hdig)
  rw [hmap]
  simp only []
  -- leading '1's are exactly the leading zero bytes
  have hlead : leading '1' (List.replicate (leading (0 : UInt8) bs) '1' ++ (digits58 (beNat bs)).map b58chr) =
      leading (0 : UInt8) bs := by
    apply leading_replicate_append
    rcases Nat.eq_zero_or_pos (beNat bs) with h0 | hp
    · left; rw [h0, digits58_zero]; rfl
    · right
      obtain ⟨d0, r, he, hd0, hd58, _⟩ := digits58_shape _ hp
      rw [he]
      simp only [List.map_cons, List.head?_cons, ne_eq, Option.some.injEq]
      intro e
      exact hd0 ((b58chr_eq_one_iff d0 hd58).mp e)
  rw [hlead, val58_replicate_zero, val58_digits58, hn, natBytes_beNat rest hrest]
  exact hsplit.symm

end GoBT.Addr
