import GoBT.Driver.C01
import GoBT.Driver.Sighash
import GoBT.Driver.C13
import GoBT.Driver.C14
import GoBT.Driver.Fee
import GoBT.Driver.Json
import GoBT.Driver.Addr
import GoBT.Driver.Interp
import GoBT.Driver.Ord
import GoBT.Driver.Conc
import GoBT.Driver.Outputs
open GoBT GoBT.Driver

def dispatch (op : String) (args : List String) (impl : String) : Answer :=
  match op with
  | "C01.parse" => c01Parse args impl
  | "C01.ser" => c01Ser args impl
  | "C01.txs" => c01Txs args impl
  | "C01.clone" => c01Clone args impl
  | "C01.exact" => c01Exact args impl
  | "C01.stream" => c01Stream args impl
  | "C01.txid" => c01Txid args impl
  | "C02.pre" => c02Pre args impl
  | "C03.pre" => c03Pre args impl
  | "SH.vec" => shVec args impl
  | "C13.enc" => c13Enc args impl
  | "C13.tok" => c13Tok args impl
  | "C13.asm" => c13Asm args impl
  | "C13.hexjson" => c13HexJson args impl
  | "C13.minpush" => c13MinPush args impl
  | "C14.inspect" => c14Inspect args impl
  | "C11.fee" => c11Fee args impl
  | "C11.noquote" => c11NoQuote args impl
  | "C11.signed" => c11Signed args impl
  | "C10.change" => c10Change args impl
  | "C12.fund" => c12Fund args impl
  | "C12.fromtx" => c12FromTx args impl
  | "C09.njtx" => c09NodeTx args impl
  | "C09.rawjson" => noPanicOnly impl
  | "C09.alloc" => c09Alloc args impl
  | "C09.input" => c09Input args impl
  | "C09.output" => c09Output args impl
  | "C09.reader" => c09Reader args impl
  | "C16.amt" => c16Amt args impl
  | "C16.tx" => c16Tx args impl
  | "C16.out" => c16Obj args impl
  | "C16.utxo" => c16Obj args impl
  | "C16.utxos" => c16List args impl
  | "C15.str" => c15Str args impl
  | "C15.key" => c15Key args impl
  | "C15.out" => c15Out args impl
  | "C14.opret" => c14OpRet args impl
  | "C14.puzzle" => c14Puzzle args impl
  | "C01.misc" => c01Misc args impl
  | "C17.rt" => c17Rt args impl
  | "C17.dec" => c17Dec args impl
  | "IX.exec" => ixExec args impl
  | "IX.vec" => ixVec args impl
  | "IX.total" => ixTotal impl
  | "IX.totaljson" => ixTotal impl
  | "IX.dbg" => ixDbg args impl
  | "C04.mut" => c04Mut args impl
  | "C18.race" => c18Race args impl
  | "C20.list" => c20List args impl
  | "C20.validate" => c20Validate args impl
  | "C20.bid" => c20Bid args impl
  | "C20.insc" => c20Insc args impl
  | "C20.reinsc" => c20Reinsc args impl
  | "C20.specific" => c20Specific args impl
  | _ => ("unknown-op", "n/a")

partial def loop (h : IO.FS.Stream) (out : IO.FS.Stream) : IO Unit := do
  let line ← h.getLine
  if line.isEmpty then return ()
  let line := (line.dropEndWhile (fun c => c == '\n' || c == '\r')).toString
  let (lhs, impl) := match line.splitOn "\t" with
    | [a, b] => (a, b)
    | a :: _ => (a, "")
    | [] => ("", "")
  match lhs.splitOn " " with
  | op :: args =>
    let (m, p) := dispatch op args impl
    out.putStrLn s!"{m}\t{p}"
  | [] => out.putStrLn "bad-line\tn/a"
  loop h out

def main : IO Unit := do
  let out ← IO.getStdout
  loop (← IO.getStdin) out
  out.flush
