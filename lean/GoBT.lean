import GoBT.Basic.Bytes
import GoBT.Basic.VarInt
import GoBT.Tx.Wire
import GoBT.Tx.WireLemmas
import GoBT.Props.C01
import GoBT.Sighash.Model
import GoBT.Props.C02
import GoBT.Props.C03
