package main

// Gen/Locks.lean: for every method of bt.FeeQuote / bt.FeeQuotes, the ordered list of lock operations, field
// accesses and calls of other lock-taking methods, as they appear in the body (deferred unlocks at the end).
// Gen/Shared.lean: the fields of interpreter.engine and every package-level variable of the loaded packages that
// some function body (other than an init function) assigns to, increments or takes the address of.

import (
	"fmt"
	"os"
	"go/ast"
	"go/token"
	"go/types"
	"sort"
	"strings"

	"golang.org/x/tools/go/packages"
)

type lact struct{ kind, obj, arg string }

func recvTypeName(fd *ast.FuncDecl) string {
	if fd.Recv == nil || len(fd.Recv.List) != 1 {
		return ""
	}
	t := fd.Recv.List[0].Type
	if s, ok := t.(*ast.StarExpr); ok {
		t = s.X
	}
	if id, ok := t.(*ast.Ident); ok {
		return id.Name
	}
	return ""
}

func namedOf(t types.Type) string {
	if p, ok := t.(*types.Pointer); ok {
		t = p.Elem()
	}
	if n, ok := t.(*types.Named); ok {
		return n.Obj().Name()
	}
	return ""
}

func genLocks(by map[string]*packages.Package, out string) {
	p := by["bt"]
	locked := map[string]bool{"FeeQuote": true, "FeeQuotes": true}
	type method struct {
		name string
		acts []lact
	}
	var methods []method
	for _, f := range p.Syntax {
		for _, d := range f.Decls {
			fd, ok := d.(*ast.FuncDecl)
			if !ok || fd.Body == nil {
				continue
			}
			rt := recvTypeName(fd)
			if !locked[rt] {
				continue
			}
			recvName := ""
			if len(fd.Recv.List[0].Names) == 1 {
				recvName = fd.Recv.List[0].Names[0].Name
			}
			var acts, deferred []lact
			// which object an expression of a locked type denotes
			objOf := func(e ast.Expr) string {
				if id, ok := e.(*ast.Ident); ok && id.Name == recvName {
					return "self"
				}
				return "other"
			}
			// mutex call: X.mu.Lock() etc.
			muCall := func(c *ast.CallExpr) (lact, bool) {
				sel, ok := c.Fun.(*ast.SelectorExpr)
				if !ok {
					return lact{}, false
				}
				inner, ok := sel.X.(*ast.SelectorExpr)
				if !ok {
					return lact{}, false
				}
				tv, ok := p.TypesInfo.Types[inner]
				if !ok || !strings.HasSuffix(tv.Type.String(), "sync.RWMutex") && !strings.HasSuffix(tv.Type.String(), "sync.Mutex") {
					return lact{}, false
				}
				if !locked[namedOf(p.TypesInfo.Types[inner.X].Type)] {
					die("%s.%s: mutex of an unexpected object", rt, fd.Name.Name)
				}
				kind := map[string]string{"Lock": "lock", "Unlock": "unlock", "RLock": "rlock", "RUnlock": "runlock"}[sel.Sel.Name]
				if kind == "" {
					die("%s.%s: unknown mutex operation %s", rt, fd.Name.Name, sel.Sel.Name)
				}
				return lact{kind, objOf(inner.X), inner.Sel.Name}, true
			}
			// field selector of a locked type (not the mutex, not a method)
			fieldSel := func(e ast.Expr) (lact, bool) {
				sel, ok := e.(*ast.SelectorExpr)
				if !ok {
					return lact{}, false
				}
				s := p.TypesInfo.Selections[sel]
				if s == nil || s.Kind() != types.FieldVal {
					return lact{}, false
				}
				if !locked[namedOf(s.Recv())] {
					return lact{}, false
				}
				if strings.Contains(s.Obj().Type().String(), "sync.") {
					return lact{}, false
				}
				return lact{"", objOf(sel.X), sel.Sel.Name}, true
			}
			var visit func(n ast.Node) bool
			walk := func(n ast.Node) {
				if n != nil {
					ast.Inspect(n, visit)
				}
			}
			visit = func(n ast.Node) bool {
				switch x := n.(type) {
				case *ast.DeferStmt:
					if a, ok := muCall(x.Call); ok {
						deferred = append([]lact{a}, deferred...)
						return false
					}
					die("%s.%s: defer of something other than a mutex release", rt, fd.Name.Name)
				case *ast.FuncLit:
					die("%s.%s: function literal (not understood)", rt, fd.Name.Name)
				case *ast.GoStmt:
					die("%s.%s: go statement (not understood)", rt, fd.Name.Name)
				case *ast.CallExpr:
					if a, ok := muCall(x); ok {
						acts = append(acts, a)
						return false
					}
					if sel, ok := x.Fun.(*ast.SelectorExpr); ok {
						if s := p.TypesInfo.Selections[sel]; s != nil && s.Kind() == types.MethodVal && locked[namedOf(s.Recv())] {
							for _, a := range x.Args {
								walk(a)
							}
							walk(sel.X)
							acts = append(acts, lact{"call", objOf(sel.X), namedOf(s.Recv()) + "." + sel.Sel.Name})
							return false
						}
					}
				case *ast.AssignStmt:
					for _, r := range x.Rhs {
						walk(r)
					}
					for _, l := range x.Lhs {
						if a, ok := fieldSel(l); ok {
							acts = append(acts, lact{"write", a.obj, a.arg})
							continue
						}
						if ix, ok := l.(*ast.IndexExpr); ok {
							if a, ok := fieldSel(ix.X); ok {
								walk(ix.Index)
								acts = append(acts, lact{"write", a.obj, a.arg})
								continue
							}
						}
						walk(l)
					}
					return false
				case *ast.IncDecStmt:
					if a, ok := fieldSel(x.X); ok {
						acts = append(acts, lact{"write", a.obj, a.arg})
						return false
					}
				case *ast.UnaryExpr:
					if x.Op == token.AND {
						if a, ok := fieldSel(x.X); ok {
							// address taken: treat as a write (the pointer may be written through)
							acts = append(acts, lact{"write", a.obj, a.arg})
							return false
						}
					}
				case *ast.SelectorExpr:
					if a, ok := fieldSel(x); ok {
						acts = append(acts, lact{"read", a.obj, a.arg})
						return false
					}
				}
				return true
			}
			walk(fd.Body)
			acts = append(acts, deferred...)
			methods = append(methods, method{rt + "." + fd.Name.Name, acts})
		}
	}
	sort.Slice(methods, func(i, j int) bool { return methods[i].name < methods[j].name })
	if len(methods) == 0 {
		die("no FeeQuote/FeeQuotes methods found")
	}
	var sb strings.Builder
	sb.WriteString("/- GENERATED by /verif/extract from /repo/fees.go — do not edit. -/\nnamespace GoBT.Gen.Locks\n\n")
	sb.WriteString("/-- (method, [(kind, object, mutex / field / callee)]) in body order; deferred releases last -/\n")
	sb.WriteString("def methods : List (String × List (String × String × String)) := [\n")
	for i, m := range methods {
		var as []string
		for _, a := range m.acts {
			as = append(as, fmt.Sprintf("(%s, %s, %s)", leanStr(a.kind), leanStr(a.obj), leanStr(a.arg)))
		}
		sep := ","
		if i == len(methods)-1 {
			sep = ""
		}
		fmt.Fprintf(&sb, "  (%s, [%s])%s\n", leanStr(m.name), strings.Join(as, ", "), sep)
	}
	sb.WriteString("]\n\nend GoBT.Gen.Locks\n")
	writeIfChanged(out+"/Locks.lean", sb.String())
}

func genShared(by map[string]*packages.Package, out string) {
	// fields of interpreter.engine
	ip := by["interpreter"]
	engineFields := -1
	for _, f := range ip.Syntax {
		for _, d := range f.Decls {
			gd, ok := d.(*ast.GenDecl)
			if !ok {
				continue
			}
			for _, s := range gd.Specs {
				ts, ok := s.(*ast.TypeSpec)
				if !ok || ts.Name.Name != "engine" {
					continue
				}
				st, ok := ts.Type.(*ast.StructType)
				if !ok {
					die("interpreter.engine is not a struct")
				}
				engineFields = st.Fields.NumFields()
			}
		}
	}
	if engineFields < 0 {
		die("interpreter.engine not found")
	}
	// package-level variables written outside init
	var written []string
	var calls []string
	var names []string
	for n := range by {
		names = append(names, n)
	}
	sort.Strings(names)
	nvars := 0
	for _, n := range names {
		p := by[n]
		isGlobal := func(e ast.Expr) (string, bool) {
			for {
				switch x := e.(type) {
				case *ast.IndexExpr:
					e = x.X
					continue
				case *ast.SelectorExpr:
					// pkg.Var or global.field
					if id, ok := x.X.(*ast.Ident); ok {
						if _, isPkg := p.TypesInfo.Uses[id].(*types.PkgName); isPkg {
							if v, ok := p.TypesInfo.Uses[x.Sel].(*types.Var); ok && v.Parent() == v.Pkg().Scope() {
								return v.Pkg().Name() + "." + v.Name(), true
							}
							return "", false
						}
					}
					e = x.X
					continue
				case *ast.ParenExpr:
					e = x.X
					continue
				case *ast.StarExpr:
					e = x.X
					continue
				case *ast.Ident:
					if v, ok := p.TypesInfo.Uses[x].(*types.Var); ok && v.Pkg() != nil && v.Parent() == v.Pkg().Scope() {
						return v.Pkg().Name() + "." + v.Name(), true
					}
					return "", false
				default:
					return "", false
				}
			}
		}
		for _, o := range p.Types.Scope().Names() {
			if _, ok := p.Types.Scope().Lookup(o).(*types.Var); ok {
				nvars++
			}
		}
		for _, f := range p.Syntax {
			for _, d := range f.Decls {
				fd, ok := d.(*ast.FuncDecl)
				if !ok || fd.Body == nil || (fd.Recv == nil && fd.Name.Name == "init") {
					continue
				}
				fn := n + "." + fd.Name.Name
				ast.Inspect(fd.Body, func(nd ast.Node) bool {
					switch x := nd.(type) {
					case *ast.AssignStmt:
						if x.Tok == token.DEFINE {
							return true
						}
						for _, l := range x.Lhs {
							if g, ok := isGlobal(l); ok {
								written = append(written, g+" in "+fn)
							}
						}
					case *ast.IncDecStmt:
						if g, ok := isGlobal(x.X); ok {
							written = append(written, g+" in "+fn)
						}
					case *ast.UnaryExpr:
						if x.Op == token.AND {
							if g, ok := isGlobal(x.X); ok {
								written = append(written, "&"+g+" in "+fn)
							}
						}
					case *ast.SliceExpr:
						// slicing a package-level *array* yields a slice of the variable itself (an implicit address-of):
						// whatever is read or appended through it is shared by every goroutine (a staging buffer, a cache)
						if g, ok := isGlobal(x.X); ok {
							if tv, ok := p.TypesInfo.Types[x.X]; ok {
								if _, isArr := tv.Type.Underlying().(*types.Array); isArr {
									written = append(written, "&"+g+"[:] in "+fn)
								}
							}
						}
					case *ast.CallExpr:
						// copy(global…, src) writes the variable's elements
						if id, ok := x.Fun.(*ast.Ident); ok && id.Name == "copy" && len(x.Args) == 2 {
							if _, isBuiltin := p.TypesInfo.Uses[id].(*types.Builtin); isBuiltin {
								dst := x.Args[0]
								if se, ok := dst.(*ast.SliceExpr); ok {
									dst = se.X
								}
								if g, ok := isGlobal(dst); ok {
									written = append(written, "copy("+g+") in "+fn)
								}
							}
						}
						// a method invoked on a package-level variable may mutate it (shared hashers, buffers,
						// pools, caches): every such call is listed unless the method has a value receiver
						// on a non-reference type (which cannot change the variable)
						if sel, ok := x.Fun.(*ast.SelectorExpr); ok {
							if s := p.TypesInfo.Selections[sel]; s != nil && s.Kind() == types.MethodVal {
								if g, ok := isGlobal(sel.X); ok {
									mutating := true
									if sig, ok := s.Obj().Type().(*types.Signature); ok && sig.Recv() != nil {
										if _, ptr := sig.Recv().Type().(*types.Pointer); !ptr {
											switch sig.Recv().Type().Underlying().(type) {
											case *types.Basic, *types.Struct, *types.Array:
												mutating = false
											}
										}
									}
									if mutating {
										calls = append(calls, p.TypesInfo.Types[sel.X].Type.String()+" "+g+"."+sel.Sel.Name+" in "+fn)
									}
								}
							}
						}
					}
					return true
				})
			}
		}
	}
	sort.Strings(written)
	var sb strings.Builder
	sb.WriteString("/- GENERATED by /verif/extract from /repo — do not edit. -/\nnamespace GoBT.Gen.Shared\n\n")
	fmt.Fprintf(&sb, "/-- number of fields of interpreter.engine -/\ndef engineFields : Nat := %d\n\n", engineFields)
	fmt.Fprintf(&sb, "/-- package-level variables examined -/\ndef globalVars : Nat := %d\n\n", nvars)
	sb.WriteString("/-- package-level variables assigned, incremented or address-taken in a function body other than init -/\ndef writtenGlobals : List String := [")
	for i, w := range written {
		if i > 0 {
			sb.WriteString(", ")
		}
		sb.WriteString(leanStr(w))
	}
	sb.WriteString("]\n\n")
	sort.Strings(calls)
	sb.WriteString("/-- methods (pointer / reference receivers) invoked on package-level variables outside init -/\ndef globalMethodCalls : List String := [")
	for i, w := range calls {
		if i > 0 {
			sb.WriteString(", ")
		}
		sb.WriteString(leanStr(w))
	}
	sb.WriteString("]\n\nend GoBT.Gen.Shared\n")
	writeIfChanged(out+"/Shared.lean", sb.String())
}

// Gen/Indexing.lean: every index and slice expression (maps excluded) in the non-test sources of
// bscript/interpreter, as (file, function, expression text).  The model turns each of them into a total
// operation or an explicit panic outcome; GoBT/Interp/IndexReview.lean records, per function, why.
func genIndexing(by map[string]*packages.Package, out string) {
	genIndexingFor(by["interpreter"], out+"/Indexing.lean", "GoBT.Gen.Indexing", "bscript/interpreter")
	genIndexingFor(by["bscript"], out+"/IndexingBscript.lean", "GoBT.Gen.IndexingBscript", "bscript")
	genIndexingFor(by["bt"], out+"/IndexingBt.lean", "GoBT.Gen.IndexingBt", "the root package")
}

func genIndexingFor(p *packages.Package, outFile, ns, what string) {
	var rows []string
	for _, f := range p.Syntax {
		fname := p.Fset.Position(f.Pos()).Filename
		if strings.HasSuffix(fname, "_test.go") {
			continue
		}
		base := fname[strings.LastIndex(fname, "/")+1:]
		for _, d := range f.Decls {
			fd, ok := d.(*ast.FuncDecl)
			if !ok || fd.Body == nil {
				continue
			}
			name := fd.Name.Name
			if rt := recvTypeName(fd); rt != "" {
				name = rt + "." + name
			}
			ast.Inspect(fd.Body, func(n ast.Node) bool {
				var x ast.Expr
				switch e := n.(type) {
				case *ast.IndexExpr:
					x = e.X
				case *ast.SliceExpr:
					x = e.X
				default:
					return true
				}
				if tv, ok := p.TypesInfo.Types[x]; ok {
					if _, isMap := tv.Type.Underlying().(*types.Map); isMap {
						return true
					}
					if _, isSig := tv.Type.Underlying().(*types.Signature); isSig {
						return true // generic instantiation, not an index
					}
				}
				start, end := p.Fset.Position(n.Pos()).Offset, p.Fset.Position(n.End()).Offset
				src, err := os.ReadFile(fname)
				if err != nil {
					die("%v", err)
				}
				rows = append(rows, fmt.Sprintf("(%s, %s, %s)", leanStr(base), leanStr(name), leanStr(strings.Join(strings.Fields(string(src[start:end])), ""))))
				return true
			})
		}
	}
	sort.Strings(rows)
	var sb strings.Builder
	sb.WriteString("/- GENERATED by /verif/extract from /repo (" + what + ") — do not edit. -/\nnamespace " + ns + "\n\n")
	sb.WriteString("/-- (file, function, index or slice expression) -/\ndef sites : List (String × String × String) := [\n")
	sb.WriteString("  " + strings.Join(rows, ",\n  ") + "\n]\n\nend " + ns + "\n")
	writeIfChanged(outFile, sb.String())
}
