// Gen/Writes.lean: every place in bscript/interpreter where bytes are written into a byte slice, with the
// intra-procedural origin of the slice written to (go/ssa).  Rows:
//
//	(function, kind, origin components)
//
// kind:   store            x[i] = v / x[i] op= v          (SSA Store through IndexAddr on a []byte)
//
//	copy             copy(x, …)
//	append           append(x, …)  (may write into x's spare capacity)
//	callwrite:<f>#i  x passed as argument i of a same-package function that itself writes into that parameter
//	extcall:<f>      x (not provably fresh) passed to a function outside the package
//
// origin: make | alloc | nil | const | convert:string | param:<p> | call:<callee> | field:<T.f> | elem:<origin> |
//
//	global:<g> | freevar:<v> | append:<origin> | range | unknown:<ssa type>;  a phi yields several components.
//
// The Lean side (GoBT/Interp/WriteReview.lean, obligation C08.handlers_write_only_fresh_buffers) demands that
// every component of every row is a fresh origin or that the row is a reviewed exception.
package main

import (
	"fmt"
	"go/types"
	"sort"
	"strings"

	"golang.org/x/tools/go/packages"
	"golang.org/x/tools/go/ssa"
	"golang.org/x/tools/go/ssa/ssautil"
)

func isByteSlice(t types.Type) bool {
	s, ok := t.Underlying().(*types.Slice)
	if !ok {
		return false
	}
	b, ok := s.Elem().Underlying().(*types.Basic)
	return ok && (b.Kind() == types.Uint8 || b.Kind() == types.Byte)
}

func isSlice(t types.Type) bool {
	_, ok := t.Underlying().(*types.Slice)
	return ok
}

// "[T]" for a slice of T that is not a byte slice
func elemTag(t types.Type) string {
	return "[" + types.TypeString(t.Underlying().(*types.Slice).Elem(), shortQual) + "]"
}

// v if it is slice-typed (a slice header being stored), else nil
func sliceVal(v ssa.Value) ssa.Value {
	if isSlice(v.Type()) {
		return v
	}
	return nil
}

// v if it is a slice whose elements are slices (copy of slice headers), else nil
func elemSliceVal(v ssa.Value) ssa.Value {
	if sl, ok := v.Type().Underlying().(*types.Slice); ok && isSlice(sl.Elem()) {
		return v
	}
	return nil
}

func calleeName(c *ssa.CallCommon) string {
	if c.IsInvoke() {
		return "(" + types.TypeString(c.Value.Type(), shortQual) + ")." + c.Method.Name()
	}
	switch f := c.Value.(type) {
	case *ssa.Function:
		return funcName(f)
	case *ssa.Builtin:
		return "builtin." + f.Name()
	case *ssa.MakeClosure:
		if fn, ok := f.Fn.(*ssa.Function); ok {
			return funcName(fn)
		}
	}
	return "dynamic"
}

func shortQual(p *types.Package) string { return p.Name() }

func funcName(f *ssa.Function) string {
	if f == nil {
		return "nil"
	}
	if f.Parent() != nil {
		return funcName(f.Parent()) + "$" + strings.TrimPrefix(f.Name(), f.Parent().Name()+"$")
	}
	if recv := f.Signature.Recv(); recv != nil {
		t := recv.Type()
		if p, ok := t.(*types.Pointer); ok {
			t = p.Elem()
		}
		return types.TypeString(t, shortQual) + "." + f.Name()
	}
	if f.Pkg != nil {
		return f.Pkg.Pkg.Name() + "." + f.Name()
	}
	if f.Object() != nil && f.Object().Pkg() != nil {
		return f.Object().Pkg().Name() + "." + f.Name()
	}
	return f.Name()
}

type originer struct {
	seen map[ssa.Value]bool
}

// same-package functions all of whose []byte results are freshly allocated (fixpoint computed in genWrites)
var returnsFresh = map[*ssa.Function]map[int]bool{}

func freshCall(c *ssa.CallCommon, idx int) bool {
	f := c.StaticCallee()
	return f != nil && returnsFresh[f][idx]
}

// origins of a slice-typed (or array-pointer-typed) SSA value
func (o *originer) of(v ssa.Value) []string {
	if o.seen[v] {
		return nil
	}
	o.seen[v] = true
	switch x := v.(type) {
	case *ssa.MakeSlice:
		return []string{"make"}
	case *ssa.Alloc:
		if ptrSlices && isPtrToByteSlice(x.Type()) {
			// &local where local is a byte slice: what the local holds
			var r []string
			if refs := x.Referrers(); refs != nil {
				for _, ref := range *refs {
					if st, ok := ref.(*ssa.Store); ok && st.Addr == x {
						r = append(r, o.of(st.Val)...)
					}
				}
			}
			if len(r) == 0 {
				return []string{"nil"}
			}
			return r
		}
		return []string{"alloc"}
	case *ssa.Const:
		if x.IsNil() {
			return []string{"nil"}
		}
		return []string{"const"}
	case *ssa.Slice:
		return o.of(x.X)
	case *ssa.Parameter:
		return []string{"param:" + x.Name()}
	case *ssa.FreeVar:
		return []string{"freevar:" + x.Name()}
	case *ssa.Phi:
		var r []string
		for _, e := range x.Edges {
			r = append(r, o.of(e)...)
		}
		return r
	case *ssa.ChangeType:
		return o.of(x.X)
	case *ssa.Convert:
		if b, ok := x.X.Type().Underlying().(*types.Basic); ok && b.Info()&types.IsString != 0 {
			return []string{"convert:string"}
		}
		return o.of(x.X)
	case *ssa.MakeInterface:
		return o.of(x.X)
	case *ssa.Call:
		name := calleeName(&x.Call)
		if name == "builtin.append" {
			var r []string
			for _, c := range o.of(x.Call.Args[0]) {
				if c == "make" || c == "alloc" || c == "nil" || c == "convert:string" || strings.HasPrefix(c, "freshcall:") {
					r = append(r, c)
				} else {
					r = append(r, "append:"+c)
				}
			}
			return r
		}
		if freshCall(&x.Call, 0) {
			return []string{"freshcall:" + name}
		}
		return []string{"call:" + name}
	case *ssa.Extract:
		if c, ok := x.Tuple.(*ssa.Call); ok {
			if freshCall(&c.Call, x.Index) {
				return []string{fmt.Sprintf("freshcall:%s#%d", calleeName(&c.Call), x.Index)}
			}
			return []string{fmt.Sprintf("call:%s#%d", calleeName(&c.Call), x.Index)}
		}
		return []string{"extract"}
	case *ssa.UnOp: // load
		switch a := x.X.(type) {
		case *ssa.FieldAddr:
			st := a.X.Type().Underlying().(*types.Pointer).Elem()
			fld := st.Underlying().(*types.Struct).Field(a.Field)
			return []string{"field:" + types.TypeString(st, shortQual) + "." + fld.Name()}
		case *ssa.IndexAddr:
			var r []string
			for _, c := range o.of(a.X) {
				r = append(r, "elem:"+c)
			}
			return r
		case *ssa.Global:
			return []string{"global:" + a.Name()}
		case *ssa.Alloc:
			// an address-taken local variable: the union over everything stored into it
			var r []string
			if refs := a.Referrers(); refs != nil {
				for _, ref := range *refs {
					if st, ok := ref.(*ssa.Store); ok && st.Addr == a {
						r = append(r, o.of(st.Val)...)
					}
				}
			}
			if len(r) == 0 {
				return []string{"local:" + a.Comment}
			}
			return r
		case *ssa.FreeVar:
			return []string{"freevar:" + a.Name()}
		}
		if ptrSlices {
			// a load through a pointer that is itself a parameter, a field, a call result …
			var r []string
			for _, c := range o.of(x.X) {
				r = append(r, "deref:"+c)
			}
			return r
		}
		return []string{"load:" + fmt.Sprintf("%T", x.X)}
	case *ssa.Field:
		st := x.X.Type()
		fld := st.Underlying().(*types.Struct).Field(x.Field)
		return []string{"field:" + types.TypeString(st, shortQual) + "." + fld.Name()}
	case *ssa.Index:
		var r []string
		for _, c := range o.of(x.X) {
			r = append(r, "elem:"+c)
		}
		return r
	case *ssa.Lookup:
		return []string{"maplookup"}
	case *ssa.Next:
		return []string{"range"}
	case *ssa.TypeAssert:
		return o.of(x.X)
	case *ssa.Global:
		return []string{"global:" + x.Name()}
	}
	return []string{"unknown:" + fmt.Sprintf("%T", v)}
}

func originOf(v ssa.Value) []string {
	o := &originer{seen: map[ssa.Value]bool{}}
	r := o.of(v)
	sort.Strings(r)
	var u []string
	for i, s := range r {
		if i == 0 || s != r[i-1] {
			u = append(u, s)
		}
	}
	if len(u) == 0 {
		u = []string{"cycle"}
	}
	return u
}

func allFresh(or []string) bool {
	for _, c := range or {
		if !(c == "make" || c == "alloc" || c == "nil" || c == "convert:string" || strings.HasPrefix(c, "freshcall:")) {
			return false
		}
	}
	return true
}

type writeRow struct {
	fn, kind string
	origin   []string
}

func genWrites(pkgs []*packages.Package, by map[string]*packages.Package, out string) {
	prog, _ := ssautil.Packages(pkgs, ssa.InstantiateGenerics)
	prog.Build()
	genWritesFor(prog, by, []string{"interpreter"}, out+"/Writes.lean", "GoBT.Gen.Writes", "/repo/bscript/interpreter", false)
	// the library proper: also writes through pointers to byte slices (*bscript.Script receivers and arguments)
	returnsFresh = map[*ssa.Function]map[int]bool{}
	genWritesFor(prog, by, []string{"bt", "bscript", "ord"}, out+"/WritesLib.lean", "GoBT.Gen.WritesLib", "/repo (package bt), /repo/bscript and /repo/ord", true)
}

// ptrSlices: also follow pointers to byte slices (loads through them, writes through them in callees)
var ptrSlices bool

func isPtrToByteSlice(t types.Type) bool {
	p, ok := t.Underlying().(*types.Pointer)
	return ok && isByteSlice(p.Elem())
}

func genWritesFor(prog *ssa.Program, by map[string]*packages.Package, names []string, outFile, namespace, what string, ptrs bool) {
	ptrSlices = ptrs
	inSet := map[*ssa.Package]bool{}
	for _, n := range names {
		p := prog.Package(by[n].Types)
		if p == nil {
			die("no SSA package for %s", n)
		}
		inSet[p] = true
	}
	// all functions of the package (methods, closures)
	var fns []*ssa.Function
	for f := range ssautil.AllFunctions(prog) {
		if inSet[f.Pkg] && f.Blocks != nil && f.Synthetic == "" {
			fns = append(fns, f)
		}
		if inSet[f.Pkg] && f.Blocks != nil && f.Synthetic != "" && f.Parent() != nil {
			fns = append(fns, f)
		}
	}
	sort.Slice(fns, func(i, j int) bool { return funcName(fns[i]) < funcName(fns[j]) })

	// pass 0: which same-package functions return only freshly allocated byte slices?
	for changed := true; changed; {
		changed = false
		for _, f := range fns {
			res := f.Signature.Results()
			for i := 0; i < res.Len(); i++ {
				if !isByteSlice(res.At(i).Type()) || returnsFresh[f][i] {
					continue
				}
				ok, any := true, false
				for _, b := range f.Blocks {
					for _, in := range b.Instrs {
						if r, isRet := in.(*ssa.Return); isRet {
							any = true
							if !allFresh(originOf(r.Results[i])) {
								ok = false
							}
						}
					}
				}
				if ok && any {
					if returnsFresh[f] == nil {
						returnsFresh[f] = map[int]bool{}
					}
					returnsFresh[f][i] = true
					changed = true
				}
			}
		}
	}
	// pass 1: which []byte parameters does each function write into (directly or through callees)?
	writesParam := map[*ssa.Function]map[int]bool{}
	paramIndex := func(f *ssa.Function, name string) int {
		for i, p := range f.Params {
			if p.Name() == name {
				return i
			}
		}
		return -1
	}
	scan := func(f *ssa.Function, emit func(kind string, v ssa.Value, src ssa.Value)) {
		for _, b := range f.Blocks {
			for _, in := range b.Instrs {
				switch x := in.(type) {
				case *ssa.Store:
					if ia, ok := x.Addr.(*ssa.IndexAddr); ok && isByteSlice(ia.X.Type()) {
						emit("store", ia.X, nil)
					} else if ok && isSlice(ia.X.Type()) {
						emit("store"+elemTag(ia.X.Type()), ia.X, sliceVal(x.Val))
					} else if fa, isF := x.Addr.(*ssa.FieldAddr); isF && isSlice(x.Val.Type()) {
						// a slice header stored into a field of the debugger snapshot type
						st := fa.X.Type().Underlying().(*types.Pointer).Elem()
						if types.TypeString(st, shortQual) == "interpreter.State" {
							fld := st.Underlying().(*types.Struct).Field(fa.Field)
							emit("setfield[State."+fld.Name()+"]", fa.X, x.Val)
						}
					}
				case ssa.CallInstruction:
					c := x.Common()
					name := calleeName(c)
					switch name {
					case "builtin.copy":
						if isByteSlice(c.Args[0].Type()) {
							emit("copy", c.Args[0], nil)
						} else if isSlice(c.Args[0].Type()) {
							emit("copy"+elemTag(c.Args[0].Type()), c.Args[0], elemSliceVal(c.Args[1]))
						}
					case "builtin.append":
						if isByteSlice(c.Args[0].Type()) {
							emit("append", c.Args[0], nil)
						} else if isSlice(c.Args[0].Type()) {
							emit("append"+elemTag(c.Args[0].Type()), c.Args[0], nil)
						}
					default:
						callee := c.StaticCallee()
						samePkg := callee != nil && inSet[callee.Pkg]
						args := c.Args
						for i, a := range args {
							if ptrSlices && isPtrToByteSlice(a.Type()) {
								// &x handed to a function that writes through it: x's bytes (and spare capacity) are written
								if samePkg && writesParam[callee][i] {
									emit(fmt.Sprintf("callwrite:%s#%d", name, i), a, nil)
								} else if !samePkg && !strings.HasPrefix(name, "builtin.") {
									emit("extcall:"+name, a, nil)
								}
								continue
							}
							if !isByteSlice(a.Type()) {
								continue
							}
							if samePkg {
								if writesParam[callee][i] {
									emit(fmt.Sprintf("callwrite:%s#%d", name, i), a, nil)
								}
							} else if !strings.HasPrefix(name, "builtin.") {
								emit("extcall:"+name, a, nil)
							}
						}
					}
				}
			}
		}
	}
	for changed := true; changed; {
		changed = false
		for _, f := range fns {
			scan(f, func(kind string, v ssa.Value, _ ssa.Value) {
				if strings.HasPrefix(kind, "extcall:") {
					return
				}
				for _, c := range originOf(v) {
					c = strings.TrimPrefix(c, "append:")
					c = strings.TrimPrefix(c, "deref:")
					if strings.HasPrefix(c, "param:") {
						if i := paramIndex(f, strings.TrimPrefix(c, "param:")); i >= 0 {
							if writesParam[f] == nil {
								writesParam[f] = map[int]bool{}
							}
							if !writesParam[f][i] {
								writesParam[f][i] = true
								changed = true
							}
						}
					}
				}
			})
		}
	}
	// pass 2: rows
	var rows []writeRow
	for _, f := range fns {
		scan(f, func(kind string, v ssa.Value, src ssa.Value) {
			or := originOf(v)
			if src != nil {
				// the value stored is itself a slice (a stack item, a parsed script): where does it come from?
				for _, c := range originOf(src) {
					or = append(or, "src:"+c)
				}
			}
			if strings.HasPrefix(kind, "extcall:") && allFresh(or) {
				return // a freshly allocated buffer handed to another package: nothing shared can be written
			}
			rows = append(rows, writeRow{funcName(f), kind, or})
		})
	}
	if ptrSlices {
		// what exported functions hand out: a byte slice that is not freshly allocated is memory shared with the caller's
		// arguments, the receiver or a package-level table
		for _, f := range fns {
			if f.Parent() != nil || f.Object() == nil || !f.Object().Exported() {
				continue
			}
			res := f.Signature.Results()
			for _, b := range f.Blocks {
				for _, in := range b.Instrs {
					r, ok := in.(*ssa.Return)
					if !ok {
						continue
					}
					for i := 0; i < res.Len(); i++ {
						if isByteSlice(res.At(i).Type()) {
							rows = append(rows, writeRow{funcName(f), fmt.Sprintf("return#%d", i), originOf(r.Results[i])})
						}
					}
				}
			}
		}
	}
	var lines []string
	for _, r := range rows {
		var cs []string
		for _, c := range r.origin {
			cs = append(cs, leanStr(c))
		}
		lines = append(lines, fmt.Sprintf("(%s, %s, [%s])", leanStr(r.fn), leanStr(r.kind), strings.Join(cs, ", ")))
	}
	sort.Strings(lines)
	// de-duplicate identical rows, keeping a count
	type cnt struct {
		line string
		n    int
	}
	var uniq []cnt
	for _, l := range lines {
		if len(uniq) > 0 && uniq[len(uniq)-1].line == l {
			uniq[len(uniq)-1].n++
		} else {
			uniq = append(uniq, cnt{l, 1})
		}
	}
	var sb strings.Builder
	sb.WriteString("/- GENERATED by /verif/extract (go/ssa) from " + what + " — do not edit. -/\nnamespace " + namespace + "\n\n")
	sb.WriteString("/-- (function, kind of write, origin components of the byte slice written to) -/\ndef sites : List (String × String × List String) := [\n")
	for i, u := range uniq {
		sep := ","
		if i == len(uniq)-1 {
			sep = ""
		}
		sb.WriteString("  " + u.line + sep + "\n")
	}
	sb.WriteString("]\n\nend " + namespace + "\n")
	writeIfChanged(outFile, sb.String())
}
